"""C04 - matched projector pairs.  Decided clauses (structural; linearity/adjointness themselves are numerical):

 a  RF7  one matrix row is used in both directions: forward_project(Bin&, image) and back_project(image, Bin) visit the same
         elements under the same plane guard and accumulate (+=) the product of the element's value with the other operand
 b  RF7  the matrix-based forward and back projector request the same rows: same loops over (tangential, axial) positions,
         same calls on the matrix and on the symmetries with the same arguments, up to forward_project <-> back_project
 c  RF12 forward projection of a subset writes only that subset's viewgrams (fill(0) only when zeroing was requested)
 d  RF12 the accumulating back projection never (re)starts the target: only back_project(image, ...) does, once
 e       the on-the-fly ray-tracing projector's tangential loop starts at the smallest |tangential position| of the
         requested range in each of the three sign configurations of the range (case analysis of the expression)
"""
import re

import sympy

from engine.algebra import Algebra, LocalDefs
from engine.bounds import Bounds
from engine.canon import roles_for
from engine.cfg import atoms as cfgatoms
from engine.cfg import CFG, relations
from engine.extract import Request
from engine.loops import describe, name_induction_variables
from engine.tree import key, root_of_lvalue, written_lvalues

D = "src/recon_buildblock/"


def requests():
    return [
        Request(D + "ProjMatrixElemsForOneBin.cxx", fn=["stir::ProjMatrixElemsForOneBin::(forward|back)_project"]),
        Request(D + "ForwardProjectorByBinUsingProjMatrixByBin.cxx", fn=["stir::ForwardProjectorByBinUsingProjMatrixByBin::actual_forward_project"]),
        Request(D + "BackProjectorByBinUsingProjMatrixByBin.cxx", fn=["stir::BackProjectorByBinUsingProjMatrixByBin::actual_back_project"]),
        Request(D + "ForwardProjectorByBin.cxx", fn=["stir::ForwardProjectorByBin::forward_project"]),
        Request(D + "BackProjectorByBin.cxx", fn=["stir::BackProjectorByBin::back_project", "stir::BackProjectorByBin::start_accumulating_in_new_target"]),
        Request(D + "ForwardProjectorByBinUsingRayTracing.cxx", fn=["stir::ForwardProjectorByBinUsingRayTracing::forward_project_all_symmetries.*"]),
        Request(D + "ForwardProjectorByBinUsingRayTracing.cxx", fn=["stir::ForwardProjectorByBinUsingRayTracing::.*"]),
    ]


def _chain(n):
    """(root node, [index nodes]) of a pure subscript chain x[i][j][k]"""
    n = n.strip()
    idx = []
    while True:
        if n.k == "CXXOperatorCallExpr" and n.op == "[]" and len(n.c) == 2:
            idx.insert(0, n.c[1].strip())
            n = n.c[0].strip()
        elif n.k == "ArraySubscriptExpr":
            idx.insert(0, n.c[1].strip())
            n = n.c[0].strip()
        else:
            return n, idx


def _factors(n):
    n = n.strip()
    if (n.k == "BinaryOperator" or n.k == "CXXOperatorCallExpr") and n.op == "*" and len(n.c) == 2:
        return _factors(n.c[0]) + _factors(n.c[1])
    return [n]


def rule_a(ctx, fns):
    fw = [f for f in fns if f.short == "forward_project" and f.params and "Bin &" in f.params[0]["t"] and "RelatedBins" not in f.sig and f.cfg_raw]
    bk = [f for f in fns if f.short == "back_project" and len(f.params) == 2 and "const stir::Bin" in f.params[1]["t"].replace("const Bin", "const stir::Bin") and f.cfg_raw]
    if not fw or not bk:
        ctx.fail_broken("row-level forward_project(Bin&, image) / back_project(image, const Bin&) not found")
        return
    out = {}
    for f, role in ((fw[0], "forward"), (bk[0], "back")):
        cfg = CFG(f)
        defs = LocalDefs(f)
        sub = {d: defs.single_def(d) for d in defs.decl}
        dens = [p for p in f.params if "DiscretisedDensity" in p["t"]][0]
        binp = [p for p in f.params if "Bin" in p["t"] and "RelatedBins" not in p["t"]][0]
        roles = roles_for(f, {dens["d"]: "$image", binp["d"]: "$bin"}, defs)
        K = lambda x: key(x, roles, sub)
        acc = [m for m in f.walk() if m.k in ("CompoundAssignOperator", "CXXOperatorCallExpr") and m.op == "+="]
        ok = len(acc) == 1
        det = "%d accumulations" % len(acc)
        info = None
        if ok:
            a = acc[0]
            rels = relations(cfg.facts_at(a))
            dk = "v%d" % dens["d"]
            lhs, rhs = a.c[0].strip(), a.c[1].strip()
            # the voxel: image[c[1]][c[2]][c[3]] with one coordinate object c, which every definition takes from E.get_coords()
            vox = [m for m in a.walk() if m.k in ("CXXOperatorCallExpr", "ArraySubscriptExpr") and key(_chain(m)[0]) == dk and len(_chain(m)[1]) == 3]
            elem = False
            guard = False
            uses_value = False
            side = None
            if len(vox) >= 1:
                v = vox[0]
                idx = _chain(v)[1]
                cs = [_chain(i) for i in idx]
                croots = {key(c[0]) for c in cs}
                if len(croots) == 1 and [key(c[1][0]) if len(c[1]) == 1 else None for c in cs] == ["1", "2", "3"]:
                    cd = cs[0][0].get("d") if cs[0][0].k == "DeclRefExpr" else None
                    cdefs = [key(x.strip()) for x in defs.all_defs(cd)] if cd is not None else []
                    cdefs = [x for x in cdefs if not x.endswith("BasicCoordinate()")]  # default construction before the loop
                    srcs = {x[: -len(".get_coords()")] for x in cdefs if x.endswith(".get_coords()")}
                    if len(srcs) == 1 and len(srcs) == len(set(cdefs)):
                        e = srcs.pop()
                        elem = True
                        ck = key(cs[0][0])
                        guard = (ck + "[1]", ">=", dk + ".get_min_index()") in rels and (ck + "[1]", "<=", dk + ".get_max_index()") in rels
                        fs = [key(x) for x in _factors(rhs)]
                        uses_value = (e + ".get_value()") in fs
                side = "lhs" if key(lhs) == key(v) else "rhs"
            info = dict(guard=guard, uses_value=uses_value, elem=elem, lhs=K(lhs), rhs=K(rhs), side=side, factors=sorted(K(x) for x in _factors(rhs)))
            ok = guard and uses_value and elem
            det = "%s += %s under plane guard=%s" % (K(lhs)[:50], K(rhs)[:90], guard)
        ctx.ob("C04.a-one-row-two-directions", f.qn + "(" + f.sig[:40] + ")", role, ok, f.where(), det)
        out[role] = info
    if out.get("forward") and out.get("back"):
        fwd, back = out["forward"], out["back"]
        # forward: bin += image[c] * value ; back: image[c] += value * (the bin's value)
        ok = fwd["side"] == "rhs" and fwd["lhs"] == "$bin" and len(fwd["factors"]) == 2 and back["side"] == "lhs" and len(back["factors"]) == 2 and "$bin.get_bin_value()" in back["factors"]
        ctx.ob("C04.a-one-row-two-directions", "stir::ProjMatrixElemsForOneBin", "dual", ok, fw[0].where(), "forward: bin += image[c]*value ; back: image[c] += value*bin" if ok else "the two directions do not exchange the roles of bin and voxel: %s / %s" % (fwd, back))


MATRIX_CLASSES = ("ProjMatrixByBin", "DataSymmetriesForBins", "SymmetryOperation", "ProjMatrixElemsForOneBin")


def skeleton(f):
    defs = LocalDefs(f)
    sub = defs.binding_map()
    # role names: parameters by type and position, loop variables by the range they run over, other non-inlined locals by type
    roles = name_induction_variables(f, roles_for(f, None, defs))
    roles = {d: (r if r.startswith(("$P", "$for")) else "$<%s>" % r[3:].rsplit("#", 1)[0].rstrip(">")) for d, r in roles.items()}
    calls = []
    for c in f.walk():
        if c.k == "CXXMemberCallExpr" and c.callee and any(("::" + k + "::") in c.callee or c.callee.startswith("stir::" + k + "::") for k in MATRIX_CLASSES):
            short = c.callee.split("::")[-1]
            if short in ("begin", "end", "get_symmetries_ptr", "is_cache_enabled"):
                continue
            args = []
            for a in c.call_args():
                b = a.strip()
                while b.k in ("CXXConstructExpr", "CXXTemporaryObjectExpr") and len(b.c) == 1:
                    b = b.c[0].strip()
                if b.k == "DeclRefExpr" and b.get("dk") == "local" and "Bin" in b.type and b.get("d") in defs.decl and defs.decl[b.get("d")].c:
                    # the declaration fixes the bin's coordinates; projecting only changes its value
                    b = defs.decl[b.get("d")].c[0].strip()
                elif b.k == "DeclRefExpr" and b.get("dk") == "local" and sub.get(b.get("d")) is not None:
                    b = sub[b.get("d")].strip()
                if b.k in ("CXXConstructExpr", "CXXTemporaryObjectExpr") and (b.callee or "") == "stir::Bin::Bin" and len(b.c) >= 5:
                    # a bin is identified by its five index coordinates; its value is the projector's operand
                    args.append("Bin(" + ",".join(key(x, roles, sub) for x in b.c[:5]) + ")")
                else:
                    args.append(key(a, roles, sub))
            args = [x.replace("const_iterator", "iterator") for x in args]
            # the data operand of forward/back projection differs by construction: keep only the bin argument's shape
            if short in ("forward_project", "back_project"):
                args = ["$data"]
            calls.append((short, tuple(args)))
    loops = []
    for lp in f.walk():
        if lp.k == "ForStmt":
            d = describe(lp, names=roles)
            # the loops over the requested (tangential, axial) sub-range: bounds are integer parameters
            if d and "$P<int>" in d["init"] and "$P<int>" in d["upper"]:
                loops.append((d["var"], d["init"], d["upper"], d["step"]))
    return calls, loops


def rule_b(ctx, ff, bf):
    fc, fl = skeleton(ff)
    bc, bl = skeleton(bf)
    swap = {"forward_project": "back_project"}
    fc2 = [(swap.get(n, n), a) for n, a in fc]
    ok_calls = fc2 == bc
    ctx.ob(
        "C04.b-matched-skeletons",
        "ForwardProjectorByBinUsingProjMatrixByBin<->BackProjectorByBinUsingProjMatrixByBin",
        "row-requests",
        ok_calls and bool(fc),
        ff.where(),
        "%d calls on matrix/symmetries/rows agree up to forward_project<->back_project" % len(fc) if ok_calls else "row requests differ: forward %s vs back %s" % ([x for x in fc2 if x not in bc][:2], [x for x in bc if x not in fc2][:2]),
    )
    ctx.ob("C04.b-matched-skeletons", "ForwardProjectorByBinUsingProjMatrixByBin<->BackProjectorByBinUsingProjMatrixByBin", "loops", fl == bl and bool(fl), ff.where(), "identical (tangential, axial) loops: %s" % fl[:2] if fl == bl else "loops differ: %s vs %s" % (fl, bl))


def _is_bool(p):
    return p["t"].replace("const ", "").strip() in ("bool", "_Bool")


def rule_c(ctx, fns):
    for f in fns:
        if f.short == "forward_project" and f.params and f.params[0]["t"] in ("ProjData &", "stir::ProjData &"):
            if not f.cfg_raw:
                continue
            if not any(_is_bool(p) for p in f.params) or not any((c.callee or "").endswith("set_related_viewgrams") for c in f.calls()):
                # a convenience overload: it must delegate to the subset-aware implementation
                dl = [c for c in f.calls() if (c.callee or "") == "stir::ForwardProjectorByBin::forward_project"]
                ctx.ob("C04.c-subset-writes-own-viewgrams", f.qn + "(" + f.sig[:40] + ")", "delegates", bool(dl), f.where(), "delegates to the subset-aware forward_project" if dl else "neither writes related viewgrams nor delegates")
                continue
            cfg = CFG(f)
            pd = "v%d" % f.params[0]["d"]
            writes = []
            for m in f.walk():
                if m.k == "CXXMemberCallExpr" and m.c and key(m.c[0]) == pd and not m.callee_info.get("const"):
                    writes.append(m)
            ok = True
            det = []
            for w in writes:
                short = (w.callee or "").split("::")[-1]
                if short == "fill":
                    facts = cfg.facts_at(w)
                    z = [p for p in f.params if _is_bool(p)]
                    guarded = z and any(k == "v%d" % z[0]["d"] and tv is True for k, tv, _r in facts)
                    if not guarded:
                        ok = False
                        det.append("fill() not guarded by the zero flag")
                elif short in ("set_related_viewgrams", "set_viewgram"):
                    # the viewgrams written come from this subset's list
                    pass
                else:
                    ok = False
                    det.append("unexpected write %s to the output data" % short)
            sets = [w for w in writes if (w.callee or "").split("::")[-1] == "set_related_viewgrams"]
            ok = ok and len(sets) == 1
            ctx.ob("C04.c-subset-writes-own-viewgrams", f.qn + "(" + f.sig[:40] + ")", "writes", ok, f.where(), "writes to the output: fill(0) under `zero`, set_related_viewgrams of this subset's viewgrams" if ok else "; ".join(det) or "no set_related_viewgrams")


def rule_d(ctx, fns):
    for f in fns:
        if f.short != "back_project" or f.body is None:
            continue
        starts = [c for c in f.calls() if (c.callee or "").endswith("::start_accumulating_in_new_target")]
        fills = [c for c in f.calls() if (c.callee or "").split("::")[-1] == "fill" and c.call_object() is not None and ("DiscretisedDensity" in c.call_object().type or "DiscretisedDensity" in (c.callee or ""))]
        first_is_image = f.params and "DiscretisedDensity" in f.params[0]["t"] and not f.params[0]["t"].startswith("const")
        if first_is_image:
            ok = len(starts) == 1
            ctx.ob("C04.d-accumulation", f.qn + "(" + f.sig[:45] + ")", "starts-target-once", ok, f.where(), "the image-taking wrapper starts a new target exactly once" if ok else "%d start_accumulating_in_new_target calls" % len(starts))
        else:
            ok = not starts and not fills
            ctx.ob("C04.d-accumulation", f.qn + "(" + f.sig[:45] + ")", "accumulates", ok, f.where(), "accumulating variant never restarts or clears the target" if ok else "accumulating back_project restarts/clears the target")


def case_eval(n, facts, defs):
    """evaluate an int expression under sign facts about variables, to a sympy expression; None if undecidable"""
    n = n.strip()
    if n.k == "IntegerLiteral":
        return sympy.Integer(n.get("v"))
    if n.k == "DeclRefExpr":
        if n.get("dk") == "local":
            init = defs.single_def(n.get("d"))
            if init is not None:
                return case_eval(init, facts, defs)
        return sympy.Symbol("v%d" % n.get("d"), integer=True)
    if n.k == "UnaryOperator" and n.op == "-":
        v = case_eval(n.c[0], facts, defs)
        return None if v is None else -v
    if n.k == "ConditionalOperator":
        c = decide(n.c[0], facts, defs)
        if c is None:
            return None
        return case_eval(n.c[1] if c else n.c[2], facts, defs)
    if n.k == "CallExpr" and n.callee in ("std::max", "std::min") and len(n.c) == 2:
        a, b = case_eval(n.c[0], facts, defs), case_eval(n.c[1], facts, defs)
        if a is None or b is None:
            return None
        ge = compare(a, b, facts)
        le = compare(b, a, facts)
        if ge is None and le is None:
            return None
        a_is_larger = ge if ge is not None else (not le if le is False else None)
        if ge is True:
            big, small = a, b
        elif le is True:
            big, small = b, a
        elif ge is False:
            big, small = b, a
        elif le is False:
            big, small = a, b
        else:
            return None
        return big if n.callee == "std::max" else small
    if n.k == "BinaryOperator" and n.op in ("+", "-"):
        a, b = case_eval(n.c[0], facts, defs), case_eval(n.c[1], facts, defs)
        if a is None or b is None:
            return None
        return a + b if n.op == "+" else a - b
    return None


def compare(a, b, facts):
    """a >= b ?  under facts = {symbol name: 'neg' | 'pos' | 'nonneg' | 'nonpos'} and min<=max; True/False/None"""
    d = sympy.expand(a - b)
    if d.is_number:
        return bool(d >= 0)
    syms = list(d.free_symbols)
    if len(syms) == 1 and d.is_Symbol or (len(syms) == 1 and sympy.expand(d - syms[0]) == 0):
        s = facts.get(syms[0].name)
        if s in ("pos", "nonneg"):
            return True
        if s == "neg":
            return False
    if len(syms) == 1 and sympy.expand(d + syms[0]) == 0:
        s = facts.get(syms[0].name)
        if s in ("neg", "nonpos"):
            return True
        if s == "pos":
            return False
    return None


def _inclusive_upper(c2):
    """the node of the inclusive upper bound of a loop condition `v <= B` (B) or `v < B + 1` (B); None for other shapes"""
    if c2.k != "BinaryOperator":
        return None
    if c2.op == "<=":
        return c2.c[1]
    if c2.op == "<":
        o = c2.c[1].strip()
        if o.k == "BinaryOperator" and o.op == "+" and key(o.c[1].strip()) == "1":
            return o.c[0]
    return None


def decide(c, facts, defs):
    c = c.strip()
    if c.k == "BinaryOperator" and c.op in ("<", ">", "<=", ">=", "=="):
        a, b = case_eval(c.c[0], facts, defs), case_eval(c.c[1], facts, defs)
        if a is None or b is None:
            return None
        ge = compare(a, b, facts)  # a >= b
        le = compare(b, a, facts)  # b >= a
        if c.op == ">=":
            return ge
        if c.op == "<=":
            return le
        if c.op == "<":
            return None if ge is None else (not ge)
        if c.op == ">":
            return None if le is None else (not le)
        if c.op == "==":
            if ge is False or le is False:
                return False
            if ge is True and le is True:
                return True
            return None
    return None


def _param_roots(n, defs, seen=None):
    """parameters / non-inlinable variables an int expression depends on (through single-definition locals)"""
    out = set()
    seen = seen if seen is not None else set()
    for m in n.walk():
        if m.k == "DeclRefExpr" and m.get("dk") in ("local", "param"):
            d = m.get("d")
            init = defs.single_def(d) if m.get("dk") == "local" else None
            if init is not None and d not in seen:
                seen.add(d)
                out |= _param_roots(init, defs, seen)
            elif init is None:
                out.add(d)
        elif m.is_call() and (m.callee or "") not in ("std::max", "std::min"):
            out.add("call")
    return out


def rule_e(ctx, fns):
    """the tangential range is given by the function's last two int parameters (min, max); everything else is found by data
    flow from them, never by the identifiers of the locals"""
    n = 0
    for f in fns:
        ints = [p for p in f.params if p["t"].replace("const ", "").strip() == "int"]
        if len(ints) < 4 or f.body is None:
            continue
        mnp, mxp = ints[-2], ints[-1]
        defs = LocalDefs(f)
        tr = {mnp["d"], mxp["d"]}
        mn, mx = sympy.Symbol("v%d" % mnp["d"], integer=True), sympy.Symbol("v%d" % mxp["d"], integer=True)
        # loops whose start and end are functions of the requested tangential range only
        starts = []
        for lp in f.walk():
            if lp.k != "ForStmt" or len(lp.c) != 4:
                continue
            init = lp.c[0]
            rhs = None
            for m in init.walk():
                if m.k == "VarDecl" and m.c:
                    rhs = m.c[0]
                elif m.k == "BinaryOperator" and m.op == "=":
                    rhs = m.c[1]
            if rhs is None:
                continue
            r = _param_roots(rhs, defs)
            if r and r <= tr:
                starts.append((lp, rhs))
        zero_tests = []
        for m in f.walk():
            if m.k == "IfStmt" and m.c:
                c = m.c[0].strip()
                if c.k == "BinaryOperator" and c.op == "==" and key(c.c[1].strip()) == "0":
                    r = _param_roots(c.c[0], defs)
                    if r and r <= tr:
                        zero_tests.append(c.c[0])
        if not starts:
            continue
        cases = [
            ("range entirely negative", {mn.name: "neg", mx.name: "neg"}, -mx, -mx),
            ("range entirely positive", {mn.name: "pos", mx.name: "pos"}, mn, mn),
            ("range contains 0", {mn.name: "nonpos", mx.name: "nonneg"}, sympy.Integer(0), sympy.Integer(1)),
        ]
        ok = True
        det = []
        undecided = []
        for name, facts, want0, want_loop in cases:
            for what, exprs, want in (("tangential loop", [r for _lp, r in starts], want_loop), ("tang==0 test", zero_tests, want0)):
                for e in exprs:
                    got = case_eval(e, facts, defs)
                    if got is None:
                        undecided.append("%s/%s" % (name, what))
                        continue
                    if sympy.expand(got - want) != 0:
                        ok = False
                        msg = "%s: %s uses %s instead of %s" % (name, what, str(got).replace(mn.name, "min_tang").replace(mx.name, "max_tang"), str(want).replace(mn.name, "min_tang").replace(mx.name, "max_tang"))
                        if msg not in det:
                            det.append(msg)
        if ok and undecided:
            ctx.unrec(f.qn, "start of the tangential loops cannot be evaluated for: %s" % sorted(set(undecided)))
            continue
        ctx.ob("C04.e-tangential-subrange", f.qn, "smallest-abs-tangential-position", ok, f.where(), "%d tangential loops start at max(1, min |tang|) and %d special-case tests compare min |tang| with 0, where min |tang| of the requested range is -max / min / 0 in the three sign configurations" % (len(starts), len(zero_tests)) if ok else "; ".join(det))
        n += 1
    return n


def rule_f_range_wrappers(ctx, fns, kind):
    """The convenience overloads project(viewgrams[, axial range[, tangential range]]) of the projector base classes must hand the
    caller's viewgrams and ranges unchanged to the implementation (missing ranges = the viewgrams' full ranges, slot by slot) and must
    not write the viewgrams themselves: otherwise bins outside the requested sub-range change, or pieces do not add up to the whole."""
    SLOTS = ["get_min_axial_pos_num", "get_max_axial_pos_num", "get_min_tangential_pos_num", "get_max_tangential_pos_num"]
    short = "forward_project" if kind == "forward" else "back_project"
    n = 0
    for f in fns:
        if f.short != short or f.body is None:
            continue
        vg = [p for p in f.params if "RelatedViewgrams" in p["t"]]
        if len(vg) != 1 or any("ProjData" in p["t"] for p in f.params):
            continue
        vk = "v%d" % vg[0]["d"]
        ints = [p for p in f.params if p["t"].replace("const ", "").strip() == "int"]
        if len(ints) not in (0, 2, 4):
            continue
        fid = f.qn + "(" + f.sig[:60] + ")"
        dele = [c for c in f.calls() if (c.callee or "").split("::")[-1] in (short, "actual_" + short) and any(key(a.strip()) == vk for a in c.call_args())]
        if len(dele) != 1:
            ctx.ob("C04.f-range-wrappers", fid, "delegates-once", False, f.where(), "%d delegating calls" % len(dele))
            n += 1
            continue
        c = dele[0]
        args = [a.strip() for a in c.call_args()]
        rng = args[-4:] if len(args) >= 5 else []
        ok = len(rng) == 4
        det = []
        for i, a in enumerate(rng):
            k = key(a)
            if i < len(ints):
                if k != "v%d" % ints[i]["d"]:
                    ok = False
                    det.append("range slot %d receives %s instead of the caller's parameter %s" % (i, key(a, True), ints[i]["n"]))
            else:
                if k != "%s.%s()" % (vk, SLOTS[i]):
                    ok = False
                    det.append("range slot %d receives %s instead of viewgrams.%s()" % (i, key(a, True), SLOTS[i]))
        ctx.ob("C04.f-range-wrappers", fid, "ranges-passed-through", ok, c.where(), "the implementation receives the caller's viewgrams and (axial, tangential) ranges slot by slot" if ok else "; ".join(det) or "delegation does not pass four range arguments")
        n += 1
        # nothing else writes the viewgrams (or anything reached through them)
        from engine.algebra import Algebra, LocalDefs
        from engine.sibling import aliases

        al = aliases(f, vk, LocalDefs(f))
        wr = [m for m in f.walk() if m is not c and any(root_of_lvalue(e) in al for e in written_lvalues(m)) and not (m.k == "CXXMemberCallExpr" and (m.callee or "").split("::")[-1] in ("begin", "end"))]
        wr = [m for m in wr if not (m.k in ("UnaryOperator", "CXXOperatorCallExpr") and m.op in ("++", "--"))]  # advancing an iterator
        if kind == "forward":
            ctx.ob("C04.f-range-wrappers", fid, "wrapper-writes-nothing", not wr, (wr[0] if wr else c).where(), "only the implementation writes the viewgrams" if not wr else "the wrapper itself modifies the viewgrams (line %d): bins outside the requested sub-range can change" % wr[0].line)
            n += 1
    return n


def rule_g_producer_covers_consumer(ctx, fns):
    """On-the-fly ray tracer: `if (proj_Siddon<k>(A, ..., min_ax, MAX, ...)) for (ax = min..max) use A[ax] (and A[ax + 1])`.  The
    producer call must fill every axial position the consumer loop reads: MAX == max, or max + 1 when A[ax + 1] is read.  Otherwise the
    last axial position of a requested sub-range gets a stale / missing contribution (sibling call sites disagreeing on this argument
    is how defect F11 was found)."""
    n = 0
    for f in fns:
        if f.body is None:
            continue
        defs = LocalDefs(f)
        alg = Algebra(f, names=False)
        k = 0
        for st in f.walk():
            if st.k != "IfStmt" or len(st.c) < 2:
                continue
            cond = st.c[0].strip()
            calls = [c for c in cond.walk() if c.is_call() and (c.callee or "").split("::")[-1] == "proj_Siddon"]
            if len(calls) != 1 or len(calls[0].call_args()) < 10:
                continue
            call = calls[0]
            arr = call.call_args()[0].strip()
            if arr.k != "DeclRefExpr":
                continue
            ad = arr.get("d")
            loops = [lp for lp in st.c[1].walk() if lp.k == "ForStmt"]
            if st.c[1].k == "ForStmt":
                loops = [st.c[1]] + loops
            cons = None
            for lp in loops:
                d = describe(lp, names=False)
                if d is None:
                    # loop variable declared outside: for (ax = a; ax <= b; ax++)
                    init, c2 = lp.c[0].strip(), lp.c[1].strip()
                    if init.k == "BinaryOperator" and init.op == "=" and c2.k == "BinaryOperator" and c2.op in ("<=", "<") and key(init.c[0].strip()) == key(c2.c[0].strip()):
                        d = {"var": key(init.c[0].strip()), "init": key(init.c[1].strip()), "upper_node": _inclusive_upper(c2), "init_node": init.c[1]}
                else:
                    vd = [m for m in lp.c[0].walk() if m.k == "VarDecl" and m.c][0]
                    c2 = lp.c[1].strip()
                    d = {"var": d["var"], "init_node": vd.c[0], "upper_node": _inclusive_upper(c2)}
                if d is None or d.get("upper_node") is None:
                    continue
                reads = []
                for m in lp.c[3].walk():
                    if m.k in ("CXXOperatorCallExpr", "ArraySubscriptExpr") and (m.k == "ArraySubscriptExpr" or m.op == "[]") and len(m.c) == 2 and m.c[0].strip().k == "DeclRefExpr" and m.c[0].strip().get("d") == ad:
                        reads.append(key(m.c[1].strip()))
                if reads:
                    cons = (d, reads, lp)
                    break
            k += 1
            if cons is None:
                continue
            d, reads, lp = cons
            offs = set()
            okshape = True
            for r in reads:
                if r == d["var"]:
                    offs.add(0)
                elif r in ("(+ %s 1)" % d["var"], "(+ 1 %s)" % d["var"]):
                    offs.add(1)
                else:
                    okshape = False
            if not okshape:
                ctx.unrec(f.qn, "consumer loop at line %d reads the projection array with an index that is not ax or ax + 1" % lp.line)
                continue
            lo_ok = sympy.simplify(alg.expr(call.call_args()[8]) - alg.expr(d["init_node"])) == 0
            hi_ok = sympy.simplify(alg.expr(call.call_args()[9]) - (alg.expr(d["upper_node"]) + max(offs))) == 0
            ctx.ob("C04.g-producer-covers-consumer", f.qn + "(" + f.sig[:30] + ")", "proj_Siddon@%d" % k, lo_ok and hi_ok, call.where(), "fills axial positions %s..%s, the consumer loop reads up to %s%s" % (key(call.call_args()[8], True), key(call.call_args()[9], True), key(d["upper_node"], True), " + 1" if max(offs) else "") if lo_ok and hi_ok else "the call fills axial positions up to %s but the loop that consumes its result reads up to %s%s: the last position of the range gets a stale or missing contribution" % (key(call.call_args()[9], True), key(d["upper_node"], True), " + 1" if max(offs) else ""))
            n += 1
    return n


def _viewgram_element_writes(f):
    """(node, op) for every write to an element V[a][t] of a Viewgram<float> in f"""
    out = []
    for m in f.walk():
        if m.k in ("BinaryOperator", "CompoundAssignOperator") and m.op in ("=", "+=", "-=", "*=", "/=") and len(m.c) == 2:
            root, idx = _chain(m.c[0])
            if len(idx) == 2 and "Viewgram<float>" in (root.strip().type or ""):
                out.append((m, m.op))
    return out


def rule_h_forward_projection_overwrites(ctx, matrix_fns, rt_fns):
    """`forward_project(viewgrams, ...)` overwrites the requested range of the viewgrams (documented in ForwardProjectorByBin; the data
    set variant depends on it when the viewgrams it is handed are not empty).  Sibling implementations must agree: an implementation
    either writes every element with a plain assignment, or - when its kernels accumulate with += - sets the requested range of every
    viewgram to 0 before the first kernel is called."""
    RULE = "C04.h-forward-projection-overwrites"
    n = 0
    for f in matrix_fns:
        ws = _viewgram_element_writes(f)
        if not ws:
            ctx.unrec(f.qn, "no write to a viewgram element found in the matrix-based forward projector")
            continue
        bad = [m for m, op in ws if op != "="]
        ctx.ob(RULE, f.qn, "element-writes", not bad, (bad[0] if bad else ws[0][0]).where(), "all %d writes to viewgram elements are plain assignments" % len(ws) if not bad else "the matrix-based forward projector accumulates (`%s`) into the viewgrams it is given, while its sibling overwrites" % bad[0].op)
        n += 1
    kernels = {}
    for f in rt_fns:
        if f.body is None or f.short == "actual_forward_project":
            continue
        acc = [m for m, op in _viewgram_element_writes(f) if op != "="]
        if acc and any("Viewgram<float>" in p["t"] for p in f.params):
            kernels[f.short] = len(acc)
    # wrappers that hand their viewgrams on to an accumulating kernel accumulate as well (closure over the class's own calls)
    changed = True
    while changed:
        changed = False
        for f in rt_fns:
            if f.body is None or f.short == "actual_forward_project" or f.short in kernels or not any("Viewgram<float>" in p["t"] for p in f.params):
                continue
            if any((c.callee or "").split("::")[-1] in kernels and "ForwardProjectorByBinUsingRayTracing" in (c.callee or "") for c in f.calls()):
                kernels[f.short] = 0
                changed = True
    ctx.stats["ray_tracing_kernels_accumulating"] = sorted(kernels)
    for f in rt_fns:
        if f.body is None or f.short != "actual_forward_project" or len(f.params) != 6 or "RelatedViewgrams" not in f.params[0]["t"]:
            continue
        calls = [c for c in f.calls() if (c.callee or "").split("::")[-1] in kernels]
        if not kernels or not calls:
            ctx.unrec(f.qn, "no accumulating kernel called from the ray tracing actual_forward_project (kernels: %s)" % sorted(kernels))
            continue
        cfg = CFG(f)
        pn = ["v%d" % p["d"] for p in f.params]
        vg, (amin, amax, tmin, tmax) = pn[0], pn[2:6]

        def in_graph(x):
            while x is not None and x.i not in cfg.pos:
                x = x.parent
            return x

        from engine.loops import bounds as lbounds

        zero = None
        why = "no statement sets the requested range of the viewgrams to 0"
        for m in f.walk():
            if not (m.k == "BinaryOperator" and m.op == "=" and len(m.c) == 2 and key(m.c[1].strip()) in ("0", "0.0")):
                continue
            root, idx = _chain(m.c[0])
            if len(idx) != 2 or "Viewgram<float>" not in (root.strip().type or ""):
                continue
            loops = [a for a in m.ancestors() if a.k in ("ForStmt", "CXXForRangeStmt")]
            bs = {}
            outer = None
            for lp in loops:
                if lp.k == "ForStmt":
                    b = lbounds(lp)
                    if b is not None:
                        bs["v%d" % b["d"]] = (b["init"], b["upper"], str(b["step"]))
                        continue
                # the loop over the related viewgrams: begin() .. end() of the first parameter (or a range-for over it)
                kk = key(lp)
                inits = [key(x.c[0].strip()) for x in (lp.c[0].walk() if lp.c else []) if x.k == "VarDecl" and x.c]
                if (lp.k == "ForStmt" and "%s.begin()" % vg in inits and "%s.end()" % vg in key(lp.c[1])) or (lp.k == "CXXForRangeStmt" and vg in kk):
                    outer = lp
            ia, it = key(idx[0]), key(idx[1])
            ok_a = bs.get(ia) == (amin, amax, "1")
            ok_t = bs.get(it) == (tmin, tmax, "1")
            if not (ok_a and ok_t and outer is not None):
                why = "the zeroing at line %d does not cover [min_axial_pos_num, max_axial_pos_num] x [min_tangential_pos_num, max_tangential_pos_num] of every viewgram (axial %s, tangential %s, all viewgrams %s)" % (m.line, bs.get(ia), bs.get(it), outer is not None)
                continue
            g = in_graph(outer.c[0]) if outer.c else None
            first = [in_graph(c) for c in calls]
            if g is None or any(c is None or not cfg.dominates(g, c) for c in first):
                why = "the zeroing at line %d does not come before every kernel call" % m.line
                continue
            zero = m
            break
        ok = zero is not None
        ctx.ob(RULE, f.qn, "requested-range-zeroed-before-accumulating", ok, (zero if ok else f).where(), "the %d accumulating kernels (%s) are only called after the requested range of every viewgram has been set to 0" % (len(kernels), ", ".join(sorted(kernels))[:120]) if ok else "the ray tracing kernels add (+=) to the viewgrams, and %s: the projector adds to the data already present while ForwardProjectorByBinUsingProjMatrixByBin overwrites them" % why)
        n += 1
    return n


def rule_i_related_bin_range_tested_on_itself(ctx, fns):
    """get_related_bins_factorised lists the (axial, tangential) positions of the bins related to a basic bin that lie INSIDE the
    requested range; the matrix projectors (cache off) project exactly that list.  Whether a related bin is listed may depend on the
    range only through its OWN coordinates: a push of (.., T) that is controlled by a test of another tangential coordinate against
    min/max_tangential_pos_num drops a bin that is inside the range whenever its partner is outside (seed C04-5: -t nested in the test
    of +t) - the pieces of a tangential sub-range then no longer add up to the whole."""
    RULE = "C04.i-related-bin-listed-on-its-own-range-test"
    n = 0
    seen = set()
    for f in sorted(fns, key=lambda g: bool(g.is_dependent)):
        if f.short != "get_related_bins_factorised" or f.body is None or (f.file, f.body.line) in seen:
            continue
        seen.add((f.file, f.body.line))
        bounds = {"v%d" % p["d"]: p["n"] for p in f.params if re.search(r"(min|max)_(axial|tangential)_pos_num", p.get("n") or "")}
        if len(bounds) < 4:
            ctx.unrec(f.qn, "C04.i: the four range parameters were not found")
            continue
        k_ = 0
        for c in f.calls():
            if (c.callee or "").split("::")[-1] != "push_back" or not c.call_args():
                continue
            el = c.call_args()[0].strip()
            while el.k in ("MaterializeTemporaryExpr", "CXXBindTemporaryExpr", "CXXFunctionalCastExpr") and el.c:
                el = el.c[-1].strip()
            if el.k not in ("CXXConstructExpr", "CXXTemporaryObjectExpr") or len(el.c) != 2:
                continue
            coords = {"axial": key(el.c[0].strip()), "tangential": key(el.c[1].strip())}
            foreign = []
            own = {"axial": False, "tangential": False}
            for a in c.ancestors():
                if a.k != "IfStmt" or not a.c or not any(x is c for x in a.c[1].walk()):
                    continue
                for at, _tv in cfgatoms(a.c[0], True):
                    at = at.strip()
                    if at.k != "BinaryOperator" or at.op not in ("<", "<=", ">", ">="):
                        continue
                    l, r = key(at.c[0].strip()), key(at.c[1].strip())
                    for bk, other in ((l, r), (r, l)):
                        if bk in bounds:
                            which = "axial" if "axial" in bounds[bk] else "tangential"
                            if other == coords[which]:
                                own[which] = True
                            else:
                                foreign.append((bounds[bk], key(at.c[0].strip(), True) if bk == r else key(at.c[1].strip(), True)))
            ok = not foreign
            ctx.ob(RULE, f.qn, "push#%d" % k_, ok, c.where(), "listed under range tests of its own coordinates only (tangential tested: %s)" % own["tangential"] if ok else "the related bin with tangential position `%s` is listed only when `%s` passes the test against %s - another bin's coordinate: a related bin inside the requested range is dropped when its partner is outside, so projecting a tangential sub-range piecewise no longer adds up (and cache-off differs from cache-on)" % (key(el.c[1].strip(), True), foreign[0][1], foreign[0][0]))
            k_ += 1
            n += 1
    return n


def run(ctx):
    ctx.explanation = (
        "Decides structural necessary conditions only: (a) the row-level forward and back projection use the same elements under the same "
        "plane guard and accumulate value*operand with the roles of bin and voxel exchanged; (b) the matrix-based forward and back "
        "projectors issue the same row requests (loops over tangential/axial positions, calls on matrix, symmetries and rows with the "
        "same arguments) up to forward_project<->back_project; (c) forward projection into a data set writes only set_related_viewgrams "
        "of its subset and fill(0) under the zero flag; (d) only the image-taking back_project wrapper starts a new target, the "
        "accumulating variants never restart or clear it; (e) the on-the-fly ray-tracing projector's tangential loop starts at the "
        "smallest |tangential position| of the requested range in all three sign configurations. NOT decided: linearity, adjointness, "
        "additivity over pieces, equality of on-the-fly and matrix projectors (numerical)."
    )
    reqs = requests()
    ctx.ex.prefetch(reqs)
    us = [ctx.ex.get(r) for r in reqs]
    if any(u is None for u in us):
        return
    rule_a(ctx, [f for f in us[0].functions if f.body is not None])
    ff = [f for f in us[1].functions if f.body is not None and len(f.params) == 6]
    bf = [f for f in us[2].functions if f.body is not None and len(f.params) == 6]
    if not ff or not bf:
        ctx.fail_broken("matrix-based actual_forward_project / actual_back_project not found")
    else:
        rule_b(ctx, ff[0], bf[0])
    rule_c(ctx, [f for f in us[3].functions if f.body is not None])
    rule_d(ctx, [f for f in us[4].functions if f.body is not None])
    nf = rule_f_range_wrappers(ctx, [f for f in us[3].functions if f.body is not None], "forward") + rule_f_range_wrappers(ctx, [f for f in us[4].functions if f.body is not None], "back")
    ctx.require_count("C04.f-range-wrappers", 9)
    ng = rule_g_producer_covers_consumer(ctx, [f for f in us[5].functions if f.body is not None])
    ctx.require_count("C04.g-producer-covers-consumer", 12)
    n = rule_e(ctx, [f for f in us[5].functions if f.body is not None])
    if n < 2:
        ctx.fail_broken("tangential sub-range rule matched %d functions (2 confirmed by hand)" % n)
    rule_h_forward_projection_overwrites(ctx, ff[:1], [f for f in us[6].functions if f.body is not None])
    ctx.require_count("C04.h-forward-projection-overwrites", 2)
    ireq = Request(D + "DataSymmetriesForBins_PET_CartesianGrid.cxx", fn=["stir::DataSymmetriesForBins_PET_CartesianGrid::get_related_bins_factorised"], files=["/repo/src/include/stir/recon_buildblock/DataSymmetriesForBins_PET_CartesianGrid\\.inl"])
    iu = ctx.ex.get(ireq)
    if iu is not None:
        rule_i_related_bin_range_tested_on_itself(ctx, iu.functions)
        ctx.require_count("C04.i-related-bin-listed-on-its-own-range-test", 4)
    ctx.require_count("C04.a-one-row-two-directions", 3)
    ctx.require_count("C04.b-matched-skeletons", 2)
    ctx.require_count("C04.d-accumulation", 3)
