"""C19 - Fourier transforms and filters.  Only two structural clauses are decided (the numerical identities are NOT):

 a  the direct-convolution filters stay inside kernel and data and use every admissible kernel element: in
    out[c..] += K[v..] * in[(c - v)..]  the loop of the kernel index v of axis p runs from max(K_min_p, c_p - in_max_p) to
    min(K_max_p, c_p - in_min_p), with K's and in's index range AT THAT NESTING LEVEL (2D and 3D filters; for the 1D filter, whose
    loop start depends on the boundary condition, the upper bound)
 b  the inverse transforms are the forward transform with the opposite sign followed by division by the number of elements
    (inverse_fourier, inverse_fourier_1d): the scale that makes inverse(forward(c)) = c
"""
import math
import re

from engine.algebra import LocalDefs, data_slice
from engine.extract import Request
from engine.loops import describe
from engine.tree import key, roots

B = "src/buildblock/"
CONV = [("ArrayFilter3DUsingConvolution", 3), ("ArrayFilter2DUsingConvolution", 2), ("ArrayFilter1DUsingConvolution", 1)]


def requests():
    r = [Request(B + c + ".cxx", fn=["stir::%s::do_it" % c], files=["/repo/src/buildblock/%s\\.cxx" % c]) for c, _n in CONV]
    r.append(Request("src/numerics_buildblock/fourier.cxx", fn=["stir::inverse_fourier$", "stir::inverse_fourier_1d$"], files=["/repo/src/include/stir/numerics/fourier.h"]))
    r.append(Request(B + "ArrayFilterUsingRealDFTWithPadding.cxx", fn=["stir::ArrayFilterUsingRealDFTWithPadding::do_it", "stir::transform_array_(to|from)_periodic_indices"], files=["/repo/src/buildblock/ArrayFilterUsingRealDFTWithPadding.cxx", "/repo/src/include/stir/ArrayFunction.inl"]))
    r.append(Request(B + "SeparableMetzArrayFilter.cxx", fn=["stir::.*"], files=["/repo/src/buildblock/SeparableMetzArrayFilter\\.cxx"]))
    r.append(Request(B + "SeparableGaussianArrayFilter.cxx", fn=["stir::.*"], files=["/repo/src/buildblock/SeparableGaussianArrayFilter\\.cxx"]))
    r.insert(5, Request("src/numerics_buildblock/fourier.cxx", fn=["stir::.*fourier.*", "stir::detail::.*", "stir::get_exparray"], files=["/repo/src/include/stir/numerics/fourier.h", "/repo/src/numerics_buildblock/fourier.cxx"]))
    return r


def _chain(n):
    n = n.strip()
    idx = []
    while n.k in ("CXXOperatorCallExpr", "ArraySubscriptExpr") and (n.k == "ArraySubscriptExpr" or n.op == "[]") and len(n.c) == 2:
        idx.insert(0, n.c[1].strip())
        n = n.c[0].strip()
    return n, idx


def _nsubs(s):
    depth, n = 0, 0
    for ch in s:
        if ch == "[":
            if depth == 0:
                n += 1
            depth += 1
        elif ch == "]":
            depth -= 1
    return n


def rule_a(ctx, f, ndim, cls):
    defs = LocalDefs(f)
    sub = {d: defs.single_def(d) for d in defs.decl}
    if len(f.params) != 2:
        ctx.unrec(f.qn, "expected do_it(out, in)")
        return 0
    outp, inp = "v%d" % f.params[0]["d"], "v%d" % f.params[1]["d"]
    loops = {}
    for lp in f.walk():
        if lp.k == "ForStmt":
            d = describe(lp, names=False)
            if d:
                loops[d["d"]] = (d, lp)
            else:
                # `for (; v <= UPPER; ++v)`: the variable is declared (and positioned) before the loop
                c = lp.c[1].strip() if len(lp.c) == 4 else None
                if c is not None and c.k == "BinaryOperator" and c.op == "<=" and c.c[0].strip().k == "DeclRefExpr":
                    loops.setdefault(c.c[0].strip().get("d"), ({"d": c.c[0].strip().get("d"), "init": None, "upper": key(c.c[1].strip()), "step": "1", "node": lp, "upper_node": c.c[1]}, lp))
    n = 0
    accs = [m for m in f.walk() if m.k in ("CompoundAssignOperator", "CXXOperatorCallExpr") and m.op == "+=" and key(_chain(m.c[0])[0]) == outp]
    k = 0
    for a in accs:
        rhs = a.c[1].strip()
        if not (rhs.k in ("BinaryOperator", "CXXOperatorCallExpr") and rhs.op == "*"):
            continue
        x, y = _chain(rhs.c[0]), _chain(rhs.c[1])
        kern, data = (x, y) if key(y[0]) == inp else ((y, x) if key(x[0]) == inp else (None, None))
        if kern is None or len(kern[1]) != ndim:
            continue
        if len(data[1]) != ndim or key(kern[0]) != "this.filter_coefficients":
            continue
        out_idx = _chain(a.c[0])[1]
        for p in range(ndim):
            v = kern[1][p]
            c = out_idx[p] if p < len(out_idx) else None
            di = data[1][p]
            if v.k != "DeclRefExpr" or c is None:
                continue
            vk, ck = key(v), key(c)
            fid = "stir::%s::do_it" % cls
            if key(di) != "(- %s %s)" % (ck, vk):
                # a clamped data index (constant boundary condition) is a different summand: not this rule's shape
                continue
            lp = loops.get(v.get("d"))
            if lp is None:
                ctx.unrec(fid, "kernel index of axis %d is not the variable of a recognised loop" % p)
                continue
            d = lp[0]
            hi = key(d["node"].c[1].strip().c[1].strip(), False, sub) if d["node"].c[1].strip().k == "BinaryOperator" else d["upper"]
            mh = re.fullmatch(r"std::min\((.*)\.get_max_index\(\),\(- %s (.*)\.get_min_index\(\)\)\)" % re.escape(ck), hi or "")
            ok_hi = bool(mh) and mh.group(1).startswith("this.filter_coefficients") and _nsubs(mh.group(1)) == p and mh.group(2).startswith(inp) and _nsubs(mh.group(2)) == p
            det = "upper = %s" % hi
            ok_lo = True
            if d.get("init") is not None:
                vd = [m for m in d["node"].c[0].walk() if m.k == "VarDecl" and m.c]
                lo = key(vd[0].c[0].strip(), False, sub) if vd else "?"
                ml = re.fullmatch(r"std::max\((.*)\.get_min_index\(\),\(- %s (.*)\.get_max_index\(\)\)\)" % re.escape(ck), lo)
                ok_lo = bool(ml) and ml.group(1).startswith("this.filter_coefficients") and _nsubs(ml.group(1)) == p and ml.group(2).startswith(inp) and _nsubs(ml.group(2)) == p
                det = "lower = %s; " % lo + det
            ok = ok_hi and ok_lo
            ctx.ob("C19.a-convolution-index-bounds", fid, "sum@%d:axis%d" % (k, p), ok, a.where(), "kernel index of axis %d runs over max(k_min, c - in_max) .. min(k_max, c - in_min) of that axis" % p if ok else "kernel index of axis %d is not bounded by the kernel's and the data's range of the same axis: %s" % (p, det[:300]))
            n += 1
        k += 1
    return n


def rule_b(ctx, fns):
    n = 0
    seen = set()
    for f in fns:
        if f.short not in ("inverse_fourier", "inverse_fourier_1d") or f.body is None or f.is_dependent or len(f.params) != 2:
            continue
        if (f.short) in seen:
            continue
        seen.add(f.short)
        ck, sk = "v%d" % f.params[0]["d"], "v%d" % f.params[1]["d"]
        fwd = "fourier" if f.short == "inverse_fourier" else "fourier_1d"
        calls = [c for c in f.calls() if (c.callee or "").split("::")[-1] == fwd]
        ok = len(calls) == 1 and [key(a.strip()) for a in calls[0].call_args()] == [ck, "(- %s)" % sk]
        divs = [m for m in f.walk() if m.k in ("CompoundAssignOperator", "CXXOperatorCallExpr") and m.op == "/=" and key(m.c[0].strip()) == ck]
        want = "%s.size_all()" % ck if f.short == "inverse_fourier" else "%s.size()" % ck
        dk = key(divs[0].c[1].strip()) if len(divs) == 1 else "?"
        # the divisor may be converted to the element type (std::complex(n, 0)) - a value-preserving conversion
        dk = re.sub(r"^std::complex::complex\((.*),0(\.0)?\)$", r"\1", dk)
        okd = len(divs) == 1 and dk == want and ok and divs[0].line >= calls[0].line
        ctx.ob("C19.b-inverse-is-forward-with-opposite-sign-over-n", "stir::" + f.short, "definition", ok and okd, f.where(), "%s(c, -sign) followed by c /= %s" % (fwd, want.replace(ck, "c")) if ok and okd else "inverse transform is not the forward transform with the opposite sign divided by the number of elements")
        n += 1
    return n


def rule_c_padded_route(ctx, fns):
    """The padded-DFT filter equals the convolution only if data enter and leave the periodic (0-based, padded) array through the modulo
    map, for ANY index range of input and output:
      c1  do_it, when its arguments are not already in padded form: a fresh array of the padding range is filled by
          transform_array_to_periodic_indices(padded, input), filtered in place by do_it(padded, padded), and the output is read back by
          transform_array_from_periodic_indices(output, padded) - in this order, on every path, nothing else writing the padded array
      c2  the two transforms are the modulo map and its dual: to:  periodic[modulo(i, sizes)] = in[i] for every index i of `in`;
          from: out[i] = periodic[modulo(i, sizes)] for every index i of `out`; sizes = extent of the periodic array"""
    from engine.cfg import CFG
    from engine.tree import root_of_lvalue, written_lvalues

    n = 0
    seen = set()
    for f in fns:
        if f.short != "do_it" or f.cls is None or "RealDFTWithPadding" not in f.cls or f.body is None or f.is_dependent or not f.cfg_raw or len(f.params) != 2 or (f.file, f.line) in seen:
            continue
        seen.add((f.file, f.line))
        cfg = CFG(f)
        outp, inp = "v%d" % f.params[0]["d"], "v%d" % f.params[1]["d"]
        to = [c for c in f.calls() if (c.callee or "") == "stir::transform_array_to_periodic_indices" and c.i in cfg.pos]
        fr = [c for c in f.calls() if (c.callee or "") == "stir::transform_array_from_periodic_indices" and c.i in cfg.pos]
        rec = [c for c in f.calls() if (c.callee or "").endswith("::do_it") and len(c.call_args()) == 2 and key(c.call_args()[0].strip()) == key(c.call_args()[1].strip()) and c.i in cfg.pos]
        fid = f.qn + "<%s>" % (f.params[0]["t"].split("<")[1].split(",")[0] if "<" in f.params[0]["t"] else "")
        ok, det = False, "expected one to_periodic, one in-place do_it and one from_periodic call"
        if len(to) == 1 and len(fr) == 1 and len(rec) == 1:
            P = key(rec[0].call_args()[0].strip())
            d = rec[0].call_args()[0].strip().get("d")
            vd = [m for m in f.walk() if m.k == "VarDecl" and m.get("d") == d]
            fresh = bool(vd) and vd[0].c and vd[0].c[0].strip().k == "CXXConstructExpr" and [key(x.strip()) for x in vd[0].c[0].strip().c] == ["this.padding_range"]
            args_ok = [key(x.strip()) for x in to[0].call_args()] == [P, inp] and [key(x.strip()) for x in fr[0].call_args()] == [outp, P]
            order = cfg.dominates(to[0], rec[0]) and cfg.dominates(rec[0], fr[0])
            # every path from the construction of the padded array to the filtering passes the periodic copy; and from there to the exit the read-back
            g = vd[0] if vd else None
            while g is not None and g.i not in cfg.pos:
                g = g.parent
            allpaths = g is not None and cfg.paths_avoiding([cfg.pos[g.i]], lambda x: x.i == to[0].i, target_pred=lambda x: x.i == rec[0].i, to_exit=False) is None and cfg.must_pass_before_exit([rec[0]], lambda x: x.i == fr[0].i) is None
            others = [m for m in f.walk() if m.i in cfg.pos and m.i not in (to[0].i, rec[0].i, fr[0].i) and (g is None or m.i != g.i) and any(root_of_lvalue(e) == P for e in written_lvalues(m))]
            others = [m for m in others if not (m.k == "VarDecl" or m.k == "DeclStmt")]
            ok = fresh and args_ok and order and allpaths and not others
            det = "fresh array of the padding range <- to_periodic(input) -> do_it in place -> from_periodic(output), on every path" if ok else "padded route: fresh padded array=%s, arguments=%s, order=%s, on every path=%s, other writes to the padded array=%s" % (fresh, args_ok, order, allpaths, [m.line for m in others])
        ctx.ob("C19.c-padded-route-through-modulo-map", fid, "copy-in-filter-copy-out", ok, f.where(), det)
        n += 1
    seen = set()
    for f in fns:
        if f.short not in ("transform_array_to_periodic_indices", "transform_array_from_periodic_indices") or f.body is None or f.is_dependent or len(f.params) != 2 or f.short in seen:
            continue
        seen.add(f.short)
        defs = LocalDefs(f)
        sub = {d: defs.single_def(d) for d in defs.decl}
        outp, inp = "v%d" % f.params[0]["d"], "v%d" % f.params[1]["d"]
        periodic, plain = (outp, inp) if f.short.endswith("to_periodic_indices") else (inp, outp)
        asg = [m for m in f.walk() if m.k in ("BinaryOperator", "CXXOperatorCallExpr") and m.op == "=" and len(m.c) >= 2 and key(_chain(m.c[-2])[0]) == outp]
        ok, det = False, "expected one element assignment"
        if len(asg) == 1:
            lhs, rhs = _chain(asg[0].c[-2]), _chain(asg[0].c[-1])
            loopv = [x for x in (lhs[1] + rhs[1]) if x.k == "DeclRefExpr"]
            iv = key(loopv[0]) if loopv else None
            want_mod = None
            if iv is not None:
                pidx = (lhs if periodic == outp else rhs)[1]
                qidx = (rhs if periodic == outp else lhs)[1]
                mk_ = key(pidx[0], False, sub) if pidx else ""
                mm = re.fullmatch(r"stir::modulo\(%s,(.*)\)" % re.escape(iv), mk_)
                sizes_ok = mm is not None and re.search(r"\(\+ \(- [^ ]+ [^ ]+\) 1\)|\(- \(\+ [^ ]+ 1\) [^ ]+\)", mm.group(1)) is not None
                plain_ok = len(qidx) == 1 and key(qidx[0]) == iv and key(rhs[0]) == inp
                # the index walks over the NON-periodic array: starts at its minimum indices and is advanced by next(index, that array)
                vd = defs.decl.get(loopv[0].get("d"))
                start_ok = vd is not None and vd.c and key(vd.c[0].strip()) == "stir::get_min_indices(%s)" % plain
                nxt = [c for c in f.calls() if (c.callee or "") == "stir::next" and [key(a.strip()) for a in c.call_args()] == [iv, plain]]
                # the sizes come from the periodic array's regular range
                rr = [c for c in f.calls() if (c.callee or "").endswith("::get_regular_range") and key(c.c[0].strip()) == periodic and c.parent is not None]
                ok = mm is not None and sizes_ok and plain_ok and start_ok and len(nxt) == 1 and bool(rr)
                det = "%s[modulo(i, sizes)] %s %s[i] for every index i of the non-periodic array" % ("periodic", "=" if periodic == outp else "->", "in" if periodic == outp else "out") if ok else "not the modulo map over the whole non-periodic array: modulo(index, sizes)=%s sizes=extent=%s plain side=%s start=%s next=%s sizes from the periodic array=%s" % (mm is not None, sizes_ok, plain_ok, start_ok, len(nxt) == 1, bool(rr))
        ctx.ob("C19.c-padded-route-through-modulo-map", "stir::" + f.short, "modulo-map", ok, f.where(), det)
        n += 1
    return n


def rule_d_sign_passed_on(ctx, fns):
    """The multi-dimensional transforms are built from lower-dimensional and one-dimensional ones; all of them take the sign of the
    exponent.  A transform with sign s is the composition of its parts with the SAME s: every call, made from a function that has a
    parameter `sign`, to a function that has a parameter `sign`, passes an expression of the caller's sign for it - written out, never
    left to the callee's default (+1), which would mix exponents of both signs for s = -1."""
    RULE = "C19.d-sign-passed-on"
    # the sign slot of every function of the family, found from the code, not from the parameter's name: a parameter that enters the
    # argument of exp() is a sign (the twiddle factors), and so is a parameter that a function hands to a known sign slot
    sig = {}  # qualified name -> {arity: index of the sign parameter}

    def slot_of(f, d):
        for i, p in enumerate(f.params):
            if p.get("d") == d:
                return i
        return None

    for f in fns:
        if f.body is None:
            continue
        pd = {p["d"] for p in f.params if re.fullmatch(r"(const )?int", (p.get("t") or "").strip())}
        inside = set()
        for c in f.calls():
            if (c.callee or "").split("::")[-1] == "exp":
                inside |= {m.i for m in c.walk()}
        for d in sorted(pd):
            uses = [m for m in f.walk() if m.k == "DeclRefExpr" and m.get("dk") == "param" and m.get("d") == d]
            # the sign enters the exponent and nothing else (a length that also sizes arrays or bounds loops is not the sign)
            free = [m for m in uses if m.i not in inside and not any(a.is_call() and a.callee in sig for a in m.ancestors())]
            if uses and any(m.i in inside for m in uses) and not free:
                sig.setdefault(f.qn, {})[len(f.params)] = slot_of(f, d)
    changed = True
    while changed:
        changed = False
        for f in fns:
            if f.body is None:
                continue
            pd = {p["d"] for p in f.params if re.fullmatch(r"(const )?int", (p.get("t") or "").strip())}
            for c in f.calls():
                if c.callee not in sig:
                    continue
                args = c.call_args()
                for ar, j in sig[c.callee].items():
                    if j is not None and j < len(args) and len(args) <= ar:
                        a = args[j].strip()
                        ds = [m.get("d") for m in a.walk() if m.k == "DeclRefExpr" and m.get("dk") == "param" and m.get("d") in pd]
                        if ds and len(f.params) not in sig.get(f.qn, {}):
                            sig.setdefault(f.qn, {})[len(f.params)] = slot_of(f, ds[0])
                            changed = True
    ctx.stats["functions_with_a_sign_slot"] = len(sig)
    n = 0
    seen = set()
    for f in sorted(fns, key=lambda g: bool(g.is_dependent)):  # an instantiation (resolved callees) before the template pattern
        if f.body is None or (f.file, f.body.line) in seen:
            continue
        j0 = sig.get(f.qn, {}).get(len(f.params))
        mine = [f.params[j0]] if j0 is not None and j0 < len(f.params) else []
        if not mine:
            continue
        seen.add((f.file, f.body.line))
        sk = "v%d" % mine[0]["d"]
        from engine.algebra import LocalDefs

        defs = LocalDefs(f)
        sub = {d: defs.single_def(d) for d in defs.decl}
        for c in f.calls():
            if c.callee not in sig:
                continue
            args = c.call_args()
            # the overload with a `sign` parameter that this call can bind to: same or larger arity (defaults)
            cand = sorted(ar for ar in sig[c.callee] if ar >= len([a for a in args if not a.strip().get("defarg")]))
            if not cand:
                continue
            j = sig[c.callee][cand[0]]
            a = args[j].strip() if j < len(args) else None
            ok = a is not None and not a.get("defarg") and sk in key(a, False, sub)
            ctx.ob(RULE, f.qn.split("<")[0], "%s@%d" % (c.callee.split("::")[-1], c.line), ok, c.where(), "passes `%s` as the sign of %s" % (key(a, True), c.callee.split("::")[-1]) if ok else ("calls %s without the sign (the callee's default +1 is used): for sign = -1 the parts of the transform use exponents of both signs, and the real-data transform no longer agrees with the complex one" % c.callee.split("::")[-1] if a is None or a.get("defarg") else "passes `%s`, which is not an expression of the caller's sign, as the sign of %s" % (key(a, True), c.callee.split("::")[-1])))
            n += 1
    return n


# ---------------------------------------------------------------------------------------------------------------------------------
# e  every transform accepts every length the property supports (powers of two, 2..1024), and the real-data inverse returns an
#    array of the length the forward transform was given.  The guards `if (cond) error(...)` of the one-dimensional transforms are
#    pure integer functions of the array length; they are evaluated (constant folding over the finite list of lengths, following
#    resize() and the calls between the transforms) - nothing is executed.
LENGTHS = [2 ** k for k in range(1, 11)]


class _Unknown(Exception):
    pass


class _Rejected(Exception):
    def __init__(self, f, node):
        self.f, self.node = f, node


def _is_int_type(t):
    t = (t or "").replace("const ", "").strip()
    return t in ("int", "unsigned int", "unsigned", "long", "unsigned long", "std::size_t", "size_t", "short", "bool", "stir::VectorWithOffset::size_type")


class _Lengths:
    """abstract state: values of arithmetic locals, lengths of one-dimensional array locals/parameters"""

    def __init__(self, fns, trace):
        self.byqn = {}
        for f in fns:
            if f.body is not None and not f.is_dependent:
                self.byqn.setdefault(f.qn, []).append(f)
        self.trace = trace  # (function qn, guard ordinal) -> [(length seen, rejected?)]
        self.depth = 0

    def ev(self, n, env, lens):
        n = n.strip()
        k = n.k
        if k in ("IntegerLiteral", "FloatingLiteral", "CXXBoolLiteralExpr"):
            return n.get("v")
        if k == "ParenExpr" or k == "ExprWithCleanups" or k == "MaterializeTemporaryExpr":
            return self.ev(n.c[0], env, lens)
        if k in ("CXXStaticCastExpr", "CXXFunctionalCastExpr", "CStyleCastExpr"):
            v = self.ev(n.c[-1], env, lens)
            return int(v) if _is_int_type(n.type) else v
        if k == "DeclRefExpr":
            d = n.get("d")
            if d in env:
                return env[d]
            raise _Unknown("value of `%s`" % key(n, True))
        if k == "UnaryOperator":
            v = self.ev(n.c[0], env, lens)
            if n.op == "-":
                return -v
            if n.op == "!":
                return not v
            if n.op == "+":
                return v
            raise _Unknown("operator " + str(n.op))
        if k == "BinaryOperator":
            op = n.op
            if op == "&&":
                return bool(self.ev(n.c[0], env, lens)) and bool(self.ev(n.c[1], env, lens))
            if op == "||":
                return bool(self.ev(n.c[0], env, lens)) or bool(self.ev(n.c[1], env, lens))
            a, b = self.ev(n.c[0], env, lens), self.ev(n.c[1], env, lens)
            both_int = isinstance(a, int) and isinstance(b, int)
            if op == "+":
                return a + b
            if op == "-":
                return a - b
            if op == "*":
                return a * b
            if op == "/":
                if b == 0:
                    raise _Unknown("division by zero")
                return int(a / b) if both_int else a / b
            if op == "%":
                if not both_int or b == 0:
                    raise _Unknown("remainder")
                return int(math.fmod(a, b))
            if op == "<<" and both_int:
                return a << b
            if op == ">>" and both_int:
                return a >> b
            if op in ("==", "!=", "<", "<=", ">", ">="):
                return {"==": a == b, "!=": a != b, "<": a < b, "<=": a <= b, ">": a > b, ">=": a >= b}[op]
            raise _Unknown("operator " + str(op))
        if k == "CXXMemberCallExpr":
            short = (n.callee or "").split("::")[-1]
            o = n.call_object().strip() if n.call_object() is not None else None
            if short in ("size", "get_length") and o is not None and o.k == "DeclRefExpr" and ("v%d" % o.get("d")) in lens:
                return lens["v%d" % o.get("d")]
            if short == "get_min_index" and o is not None and o.k == "DeclRefExpr" and ("v%d" % o.get("d")) in lens:
                return 0
            raise _Unknown("`%s`" % key(n, True))
        if k == "CallExpr":
            short = (n.callee or "").split("::")[-1]
            args = [self.ev(a, env, lens) for a in n.call_args()]
            try:
                if short in ("round", "lround") and len(args) == 1:
                    return float(math.floor(abs(args[0]) + 0.5) * (1 if args[0] >= 0 else -1))
                if short == "log" and len(args) == 1:
                    return math.log(args[0])
                if short == "log2" and len(args) == 1:
                    return math.log2(args[0])
                if short == "pow" and len(args) == 2:
                    return math.pow(args[0], args[1])
                if short == "abs" and len(args) == 1:
                    return abs(args[0])
            except (ValueError, OverflowError):
                raise _Unknown("`%s` outside its domain" % short)
            raise _Unknown("call of `%s`" % short)
        raise _Unknown("expression kind %s" % k)

    def array_root(self, a):
        a = a.strip()
        return "v%d" % a.get("d") if a.k == "DeclRefExpr" and a.get("dk") in ("local", "param") else None

    def call(self, f, length):
        """interpret f with its first (array) parameter of the given length; returns (final length of that parameter, length returned)"""
        if self.depth > 6:
            raise _Unknown("call depth")
        self.depth += 1
        try:
            env, lens = {}, {}
            if f.params:
                lens["v%d" % f.params[0]["d"]] = length
            self.guard_no = 0
            ret = self.block(f, f.body, env, lens)
            return lens.get("v%d" % f.params[0]["d"]) if f.params else None, ret
        finally:
            self.depth -= 1

    def has_error(self, n):
        return any((c.callee or "") == "stir::error" for c in n.calls())

    def block(self, f, st, env, lens):
        """returns the length of the returned array if a return statement was reached, else None; raises _Rejected at error()"""
        stmts = st.c if st.k == "CompoundStmt" else [st]
        for s in stmts:
            r = self.stmt(f, s, env, lens)
            if r is not None:
                return r
        return None

    def stmt(self, f, s, env, lens):
        k = s.k
        if k == "CompoundStmt":
            return self.block(f, s, env, lens)
        if k == "DeclStmt":
            for v in s.c:
                if v.k != "VarDecl":
                    continue
                init = v.c[0] if v.c else None
                t = (v.get("t") or v.type or "")
                if "Array<" in t or "VectorWithOffset<" in t:
                    root = "v%d" % v.get("d")
                    lens.pop(root, None)
                    if init is None:
                        lens[root] = 0
                        continue
                    i2 = init.strip()
                    if i2.k in ("CXXConstructExpr", "CXXTemporaryObjectExpr"):
                        a = [x for x in i2.c if not x.strip().get("defarg")]
                        if not a:
                            lens[root] = 0
                        elif len(a) == 1:
                            if a[0].strip().k in ("CXXConstructExpr", "CXXTemporaryObjectExpr") and "IndexRange" in (a[0].strip().callee or "") and len(a[0].strip().c) == 1:
                                a = [a[0].strip().c[0]]
                            src = self.array_root(a[0])
                            if src is not None and src in lens:
                                lens[root] = lens[src]
                            else:
                                try:
                                    val = self.ev(a[0], env, lens)
                                    if isinstance(val, int):
                                        lens[root] = val
                                except _Unknown:
                                    pass
                    elif i2.is_call() and (i2.callee or "") in self.byqn:
                        src = self.array_root(i2.call_args()[0]) if i2.call_args() else None
                        if src is not None and src in lens:
                            g = self.pick(i2)
                            after, ret = self.call(g, lens[src])
                            if g.params and "&" in (g.params[0].get("t") or "") and "const" not in (g.params[0].get("t") or "") and after is not None:
                                lens[src] = after
                            if ret is not None:
                                lens[root] = ret
                    continue
                if init is None:
                    continue
                try:
                    val = self.ev(init, env, lens)
                    env[v.get("d")] = int(val) if _is_int_type(t) and not isinstance(val, bool) else val
                except _Unknown:
                    env.pop(v.get("d"), None)
            return None
        if k == "IfStmt":
            cond = s.c[0]
            guards_error = self.has_error(s)
            try:
                c = bool(self.ev(cond, env, lens))
            except _Unknown as u:
                if guards_error:
                    raise _Unknown("guard at line %d: %s" % (s.line, u))
                # an undecided branch without error(): both branches must leave lengths alone
                if any((x.callee or "").split("::")[-1] in ("resize", "grow", "reserve") or (x.callee or "") in self.byqn for x in s.calls()) or s.find(lambda m: m.k == "ReturnStmt"):
                    raise _Unknown("branch at line %d: %s" % (s.line, u))
                return None
            if guards_error:
                self.guard_no += 1
                gid = (f.qn, s.line)
                self.trace.setdefault(gid, {"f": f, "node": s, "seen": [], "rejected": []})
                self.trace[gid]["seen"].append(lens.get("v%d" % f.params[0]["d"]) if f.params else None)
            if c:
                if len(s.c) > 1:
                    th = s.c[1]
                    if guards_error and self.has_error(th):
                        self.trace[gid]["rejected"].append(lens.get("v%d" % f.params[0]["d"]) if f.params else None)
                        raise _Rejected(f, s)
                    return self.stmt(f, th, env, lens)
            elif len(s.c) > 2:
                if guards_error and self.has_error(s.c[2]) and not self.has_error(s.c[1]):
                    self.trace[gid]["rejected"].append(lens.get("v%d" % f.params[0]["d"]) if f.params else None)
                    raise _Rejected(f, s)
                return self.stmt(f, s.c[2], env, lens)
            return None
        if k == "ReturnStmt":
            if not s.c:
                return -1
            e = s.c[0].strip()
            if e.k == "CXXConstructExpr" and len(e.c) == 1 and self.array_root(e.c[0]) is not None:
                e = e.c[0].strip()  # copy/move construction of the returned local
            root = self.array_root(e)
            if root is not None and root in lens:
                return lens[root]
            if e.k in ("CXXConstructExpr", "CXXTemporaryObjectExpr") and not [x for x in e.c if not x.strip().get("defarg")]:
                return 0
            if e.is_call() and (e.callee or "") in self.byqn and e.call_args():
                src = self.array_root(e.call_args()[0])
                if src is not None and src in lens:
                    after, ret = self.call(self.pick(e), lens[src])
                    return ret if ret is not None else -1
            return -1
        if k in ("ForStmt", "WhileStmt", "DoStmt", "CXXForRangeStmt"):
            if self.has_error(s) or any((x.callee or "").split("::")[-1] in ("resize", "grow") for x in s.calls()):
                raise _Unknown("loop at line %d changes lengths or reports errors" % s.line)
            return None
        # expression statements: resize, calls between the transforms, error()
        e = s.strip()
        if e.is_call():
            short = (e.callee or "").split("::")[-1]
            if (e.callee or "") == "stir::error":
                raise _Rejected(f, s)
            if e.k == "CXXMemberCallExpr" and short in ("resize", "grow") and e.call_object() is not None:
                root = self.array_root(e.call_object())
                a = e.call_args()
                if len(a) == 1 and a[0].strip().k in ("CXXConstructExpr", "CXXTemporaryObjectExpr", "MaterializeTemporaryExpr", "CXXBindTemporaryExpr"):
                    # resize(IndexRange<1>(n)) / resize(IndexRange<1>(min, max)), also when the conversion is implicit
                    x = a[0].strip()
                    while x.k in ("MaterializeTemporaryExpr", "CXXBindTemporaryExpr") and x.c:
                        x = x.c[0].strip()
                    a = [y for y in x.c if not y.strip().get("defarg")]
                if root is not None:
                    lens.pop(root, None)
                    if len(a) == 1:
                        val = self.ev(a[0], env, lens)
                        lens[root] = int(val)
                    elif len(a) == 2:
                        lo, hi = self.ev(a[0], env, lens), self.ev(a[1], env, lens)
                        lens[root] = int(hi) - int(lo) + 1
                return None
            if (e.callee or "") in self.byqn and e.call_args():
                src = self.array_root(e.call_args()[0])
                if src is not None and src in lens:
                    g = self.pick(e)
                    after, _ret = self.call(g, lens[src])
                    if after is not None:
                        lens[src] = after
                return None
        if e.k == "CompoundAssignOperator" or (e.k == "BinaryOperator" and e.op == "="):
            lhs = e.c[0].strip()
            if lhs.k == "DeclRefExpr" and lhs.get("d") in env:
                try:
                    rhs = self.ev(e.c[1], env, lens)
                    cur = env[lhs.get("d")]
                    op = e.op.rstrip("=") if e.k == "CompoundAssignOperator" else None
                    env[lhs.get("d")] = rhs if op is None else {"+": cur + rhs, "-": cur - rhs, "*": cur * rhs}.get(op)
                    if env[lhs.get("d")] is None:
                        env.pop(lhs.get("d"))
                except _Unknown:
                    env.pop(lhs.get("d"), None)
        return None

    def pick(self, call):
        c = self.byqn[call.callee]
        a = call.call_args()
        at = (a[0].strip().type or "").replace("const ", "").replace("&", "").strip() if a else ""
        for g in c:
            pt = (g.params[0].get("t") or "").replace("const ", "").replace("&", "").strip() if g.params else ""
            if pt and at and (pt == at or pt.endswith(at) or at.endswith(pt)):
                return g
        return c[0]


def rule_e_supported_lengths(ctx, fns):
    RULE = "C19.e-transforms-accept-supported-lengths"
    trace = {}
    it = _Lengths(fns, trace)

    def one_d(short):
        c = [f for f in fns if f.short == short and f.body is not None and not f.is_dependent and f.params and re.search(r"Array<1, *(std::complex<float>|float)>", f.params[0].get("t") or "")]
        return c[0] if c else None

    fwd_r, inv_r, fwd_c, inv_c = one_d("fourier_1d_for_real_data"), one_d("inverse_fourier_1d_for_real_data_corrupting_input"), one_d("fourier"), one_d("inverse_fourier")
    if None in (fwd_r, inv_r, fwd_c, inv_c):
        ctx.fail_broken("C19.e: one-dimensional transforms (fourier, inverse_fourier, fourier_1d_for_real_data, inverse_fourier_1d_for_real_data_corrupting_input) not all found")
        return 0
    round_trip_bad, unknown = [], []
    for L in LENGTHS:
        for f in (fwd_c, inv_c):
            try:
                after, _ = it.call(f, L)
                if after != L:
                    round_trip_bad.append((f.short, L, after))
            except _Rejected:
                pass
            except _Unknown as u:
                unknown.append("%s: %s" % (f.short, u))
        try:
            _after, lc = it.call(fwd_r, L)
            if lc is None or lc < 0:
                unknown.append("fourier_1d_for_real_data: length of the result not found")
                continue
            _after, back = it.call(inv_r, lc)
            if back != L:
                round_trip_bad.append(("inverse of the real-data transform", L, back))
        except _Rejected:
            pass
        except _Unknown as u:
            unknown.append("real-data transforms: %s" % u)
    for u in sorted(set(unknown)):
        ctx.unrec("stir::fourier", "C19.e cannot evaluate %s" % u)
    n = 0
    for (qn, line), t in sorted(trace.items()):
        rej = sorted(set(x for x in t["rejected"] if x is not None))
        ords = sorted(l for (q, l) in trace if q == qn)
        ctx.ob(RULE, qn, "guard#%d" % (ords.index(line) + 1), not rej, t["node"].where(), ("`%s` lets every length through that arises for data of the lengths 2, 4, .. 1024 (seen here: %s)" % (key(t["node"].c[0].strip(), True), sorted(set(x for x in t["seen"] if x is not None))[:12])) if not rej else ("`%s` refuses array length(s) %s, which arise for data of a supported length (a power of two in 2..1024): the transform reports an error instead of a result" % (key(t["node"].c[0].strip(), True), rej)))
        n += 1
    ok = not round_trip_bad
    ctx.ob(RULE, "stir::inverse_fourier_1d_for_real_data_corrupting_input", "length-of-the-round-trip", ok, inv_r.where(), "inverse(forward(v)) has the length of v for all supported lengths (forward gives L/2+1 complex numbers)" if ok else "lengths do not come back: %s" % round_trip_bad[:6])
    return n + 1


def rule_f_kernel_sum_kept(ctx, fns):
    """Kernel builders that take a maximum kernel size: the kernel is normalised (sum 1 / response 1 at frequency 0) and its length
    is limited by the parameter.  If the limit is applied AFTER the normalisation, the elements that remain must be rescaled by a sum
    taken over what remains - otherwise constant data change by the lost part (F63).  Structural reading: some element store of the
    kernel depends (data flow) on a local that is accumulated/computed after the limit from the kernel, the limited length or a loop
    bounded by them."""
    RULE = "C19.f-kernel-sum-kept-after-length-limit"
    n = 0
    seen = set()
    for f in sorted(fns, key=lambda g: bool(g.is_dependent)):
        if f.body is None or (f.file, f.body.line) in seen:
            continue
        ints = [p for p in f.params if re.fullmatch(r"(const )?int", (p.get("t") or "").strip())]
        arrs = [p for p in f.params if "VectorWithOffset<" in (p.get("t") or "") and "&" in (p.get("t") or "") and "const" not in (p.get("t") or "")]
        if not ints or not arrs:
            continue
        defs = LocalDefs(f)
        for P in ints:
            pk = P["d"]

            def mentions(node, ds):
                return any(m.k == "DeclRefExpr" and m.get("d") in ds for m in node.walk())

            # locals limited by the parameter
            K = set()
            limit_sites = []
            for d, vd in defs.decl.items():
                if not re.fullmatch(r"(const )?int", (vd.get("t") or "").strip()):
                    continue
                for e in defs.all_defs(d):
                    if mentions(e, {pk}):
                        K.add(d)
                        limit_sites.append(e)
            for A in arrs:
                ak = "v%d" % A["d"]
                grows = [c for c in f.calls() if (c.callee or "").split("::")[-1] in ("grow", "resize") and c.call_object() is not None and key(c.call_object().strip()) == ak and any(mentions(a, K | {pk}) for a in c.call_args())]
                if not grows:
                    continue
                seen.add((f.file, f.body.line))
                t0 = min([e.i for e in limit_sites] + [g.i for g in grows if any(mentions(a, {pk}) for a in g.call_args())])
                # locals (re)computed after the limit from the kernel, the limited length, or inside a loop bounded by them
                after = set()
                for d, vd in defs.decl.items():
                    for e in defs.all_defs(d):
                        if e.i <= t0 or d in K:
                            continue
                        dep = mentions(e, K) or ak in roots(e)
                        if not dep:
                            for anc in e.ancestors():
                                if anc.k in ("ForStmt", "WhileStmt", "CXXForRangeStmt") and anc.i > t0:
                                    cond = anc.c[1] if anc.k == "ForStmt" and len(anc.c) >= 2 and anc.c[1] is not None else (anc.c[0] if anc.c else None)
                                    if cond is not None and (mentions(cond, K) or ak in roots(cond)):
                                        dep = True
                                        break
                        if dep and not re.fullmatch(r"(const )?(unsigned )?int", (vd.get("t") or "").strip()):
                            after.add(d)
                stores = [m for m in f.walk() if m.k in ("BinaryOperator", "CompoundAssignOperator", "CXXOperatorCallExpr") and (m.op or "") in ("=", "/=", "*=") and len(m.c) >= 2 and _chain(m.c[0])[1] and key(_chain(m.c[0])[0]) == ak]
                scaled = [m for m in stores if any(x.k == "DeclRefExpr" and x.get("d") in after for x in data_slice(f, [m.c[1]], defs))]
                ok = bool(scaled)
                names = sorted(defs.decl[d].name or "?" for d in after)
                ctx.ob(RULE, f.qn.split("<")[0], "kernel:%s limit:%s" % (A.get("n"), P.get("n")), ok, f.where(), ("element stores of `%s` at line(s) %s use %s, computed after the length was limited by `%s`" % (A.get("n"), sorted({m.line for m in scaled}), names, P.get("n"))) if ok else ("the length of `%s` is limited by `%s` (line %d) but no element stored in it depends on a sum taken after that limit: a kernel normalised before it was shortened no longer sums to one, so constant data are changed by the filter" % (A.get("n"), P.get("n"), min(e.line for e in limit_sites) if limit_sites else f.line)))
                n += 1
    return n


def rule_g_influence_ranges_dual(ctx, units):
    """A convolution y[i] = sum_k K[k] x[i-k] spreads input index j over outputs j+k_min .. j+k_max, and output i gathers inputs
    i-k_max .. i-k_min.  The N-dimensional separable driver asks each 1D filter which input slices influence an output range
    (get_influencing_indices) and skips the others; so for every filter class the two range functions must be DUAL: if the influenced
    range of [a, b] is [a + A, b + B] then the influencing range of [a, b] is [a - B, b - A] (closed-form algebra over the range
    expressions, through helpers and ?: alternatives).  A pair that is dual only for symmetric kernel ranges drops contributing slices
    for the others (seed C19-4)."""
    import sympy

    RULE = "C19.g-influence-ranges-dual"
    MIN, MAX = sympy.Symbol("MIN"), sympy.Symbol("MAX")

    class _No(Exception):
        pass

    def resolve(node, bind):
        node = node.strip()
        while node.k == "DeclRefExpr" and node.get("dk") == "param" and node.get("d") in bind:
            node = bind[node.get("d")].strip()
        return node

    def ev(node, bind, rng):
        node = resolve(node, bind)
        k = node.k
        if k == "IntegerLiteral":
            return sympy.Integer(node.get("v"))
        if k == "BinaryOperator" and node.op in ("+", "-"):
            a, b = ev(node.c[0], bind, rng), ev(node.c[1], bind, rng)
            return a + b if node.op == "+" else a - b
        if k == "UnaryOperator" and node.op == "-":
            return -ev(node.c[0], bind, rng)
        if k == "CXXMemberCallExpr":
            short = (node.callee or "").split("::")[-1]
            if short in ("get_min_index", "get_max_index") and node.call_object() is not None:
                o = resolve(node.call_object(), bind)
                if o.k == "DeclRefExpr" and o.get("dk") == "param" and o.get("d") == rng:
                    return MIN if short == "get_min_index" else MAX
                return sympy.Symbol(("kmin:" if short == "get_min_index" else "kmax:") + key(o, True))
        raise _No("expression `%s`" % key(node, True)[:80])

    def ranges(node, bind, rng, fns, depth=0):
        """alternatives [(lo, hi)] the range expression can evaluate to"""
        node = resolve(node, bind)
        if depth > 5:
            raise _No("helper depth")
        if node.k == "DeclRefExpr" and node.get("dk") == "param" and node.get("d") == rng:
            return [(MIN, MAX)]
        if node.k == "ConditionalOperator" and len(node.c) >= 3:
            return ranges(node.c[1], bind, rng, fns, depth) + ranges(node.c[2], bind, rng, fns, depth)
        if node.k in ("CXXConstructExpr", "CXXTemporaryObjectExpr", "CXXFunctionalCastExpr", "MaterializeTemporaryExpr", "CXXBindTemporaryExpr"):
            a = [x for x in node.c if not x.strip().get("defarg")]
            if len(a) == 1:
                return ranges(a[0], bind, rng, fns, depth)
            if len(a) == 2 and "IndexRange" in (node.callee or node.type or ""):
                return [(ev(a[0], bind, rng), ev(a[1], bind, rng))]
        if node.is_call() and node.k == "CallExpr" and (node.callee or "") in fns:
            h = fns[node.callee]
            args = node.call_args()
            b2 = dict(bind)
            for p_, a_ in zip(h.params, args):
                b2[p_["d"]] = _Bound(a_, bind)
            out = []
            for r in h.walk():
                if r.k == "ReturnStmt" and r.c:
                    out += ranges(r.c[0], b2, rng, fns, depth + 1)
            if out:
                return out
        raise _No("range expression `%s`" % key(node, True)[:80])

    class _Bound:
        """an argument node together with the binding of the caller it must be read in"""

        def __init__(self, node, bind):
            self.node, self.bind = node, bind

        def strip(self):
            n = self.node.strip()
            while n.k == "DeclRefExpr" and n.get("dk") == "param" and n.get("d") in self.bind:
                b = self.bind[n.get("d")]
                n = b.strip()
            return n

    n = 0
    for u in units:
        fns = {}
        for f in sorted(u.functions, key=lambda g: bool(g.is_dependent)):
            if f.body is not None:
                fns.setdefault(f.qn, f)
        bycls = {}
        for f in fns.values():
            if f.short in ("get_influencing_indices", "get_influenced_indices") and len(f.params) == 2 and f.cls:
                bycls.setdefault(f.cls, {})[f.short] = f
        for cls, pair in sorted(bycls.items()):
            if len(pair) != 2:
                continue
            alts = {}
            try:
                for name, f in pair.items():
                    outp, rng = f.params[0]["d"], f.params[1]["d"]
                    asg = [m for m in f.walk() if m.k in ("BinaryOperator", "CXXOperatorCallExpr") and m.op == "=" and len(m.c) >= 2 and m.c[0].strip().k == "DeclRefExpr" and m.c[0].strip().get("d") == outp]
                    if len(asg) != 1:
                        raise _No("%s: expected one assignment to the result range" % name)
                    alts[name] = ranges(asg[0].c[-1], {}, rng, fns)
            except _No as ex:
                ctx.unrec(cls, "C19.g: %s" % ex)
                continue
            def offs(lst):
                out = set()
                for lo, hi in lst:
                    a, b = sympy.expand(lo - MIN), sympy.expand(hi - MAX)
                    if a.has(MIN, MAX) or b.has(MIN, MAX):
                        raise _No("range bounds are not min + offset / max + offset")
                    out.add((a, b))
                return out
            try:
                infl_d, infl_g = offs(alts["get_influenced_indices"]), offs(alts["get_influencing_indices"])
            except _No as ex:
                ctx.unrec(cls, "C19.g: %s" % ex)
                continue
            want = {(sympy.expand(-b), sympy.expand(-a)) for a, b in infl_d}
            ok = want == infl_g
            f = pair["get_influencing_indices"]
            ctx.ob(RULE, cls.split("<")[0], "influencing-vs-influenced", ok, f.where(), "influenced [a + A, b + B] for (A, B) in %s, influencing [a - B, b - A]" % sorted(map(str, infl_d)) if ok else "the two range functions are not dual: influenced offsets %s require influencing offsets %s, the code has %s - equal only for kernels with a symmetric index range; for the others the separable N-D filter skips input slices that contribute (or reads ones that do not)" % (sorted(map(str, infl_d)), sorted(map(str, want)), sorted(map(str, infl_g))))
            n += 1
    return n


def rule_h_trivial_means_one_element_everywhere(ctx, units):
    """is_trivial() lets do_it() copy the data instead of convolving.  For an N-dimensional kernel that is right only for a kernel of
    one element (index 0, value 1) in EVERY dimension: the non-empty alternative of is_trivial() must test get_length() == 1 and
    get_min_index() == 0 at each of the N nesting levels filter_coefficients, filter_coefficients[0], ... and compare the element with
    N subscripts to 1 (F74: the 2D/3D filters tested the outermost level only)."""
    RULE = "C19.h-trivial-only-for-the-one-element-kernel"
    n = 0
    for (cls, ndim), u in zip(CONV, units):
        fs = [f for f in sorted(u.functions, key=lambda g: bool(g.is_dependent)) if f.short == "is_trivial" and f.body is not None and (f.cls or "").endswith(cls)]
        if not fs:
            ctx.unrec(cls, "C19.h: is_trivial() not found")
            continue
        f = fs[0]
        rets = [m for m in f.walk() if m.k == "ReturnStmt" and m.c]
        if len(rets) != 1:
            ctx.unrec(f.qn, "C19.h: expected a single return expression")
            continue
        k_ = key(rets[0].c[0].strip())
        missing = []
        odd = []
        for lvl in range(ndim):
            base = "this.filter_coefficients" + "[0]" * lvl
            tests = re.findall(r"\((==|!=|<|<=|>|>=) %s\.(\w+)\(\) ([0-9-]+)\)" % re.escape(base), k_)
            has_len = any(op == "==" and m_ in ("get_length", "size") and v == "1" for op, m_, v in tests)
            has_min = any(op == "==" and m_ == "get_min_index" and v == "0" for op, m_, v in tests) or (any(op == "==" and m_ == "get_min_index" and v == "0" for op, m_, v in tests) is False and any(op == "==" and m_ == "get_max_index" and v == "0" for op, m_, v in tests) and has_len)
            if tests and not (has_len and has_min) and any(m_ not in ("get_length", "size", "get_min_index", "get_max_index") or op != "==" for op, m_, v in tests):
                odd.append(base.replace("this.", ""))  # this level is tested, in a form the rule does not know
                continue
            if not has_len:
                missing.append("%s.get_length() == 1" % base.replace("this.", ""))
            if not has_min:
                missing.append("%s.get_min_index() == 0" % base.replace("this.", ""))
        if odd:
            ctx.unrec(f.qn, "C19.h: nesting level(s) %s are tested in a form that is not recognised" % ", ".join(odd))
            continue
        elem = "this.filter_coefficients" + "[0]" * ndim
        if not re.search(r"\(== %s 1(\.0)?\)" % re.escape(elem), k_):
            missing.append("%s == 1" % elem.replace("this.", ""))
        # the tests are conjuncts of ONE alternative: no `||` between them other than the empty-kernel alternative
        alts = k_.count("(|| ")
        ok = not missing and alts <= 1
        ctx.ob(RULE, f.qn.split("<")[0], "%dD" % ndim, ok, f.where(), "one element (index 0, value 1) required at all %d nesting levels" % ndim if ok else "is_trivial() can be true for a kernel that is not the identity: missing test(s) %s%s - such a kernel is skipped (data copied, not filtered)" % (", ".join(missing), "; more than one `||` alternative" if alts > 1 else ""))
        n += 1
    return n


def run(ctx):
    ctx.explanation = (
        "Decides two structural clauses: (a) in the direct-convolution filters (1D, 2D, 3D) the loop of every kernel index runs exactly over "
        "the kernel elements whose data partner exists - max(k_min, c - in_max) .. min(k_max, c - in_min) with the kernel's and the data's "
        "index range of the SAME axis (for the 1D filter, whose start depends on the boundary condition, the upper bound) - so no kernel "
        "coefficient is dropped and none outside the kernel is read; (b) inverse_fourier / inverse_fourier_1d are the forward transform "
        "with the opposite sign followed by division by the number of elements; (c) the padded-DFT route copies in, filters, copies out through "
        "the modulo map; (d) every call between the transforms passes the caller's sign; (e) no length guard of the 1D transforms refuses a "
        "length that arises for data of the lengths 2..1024 (guards folded over that list) and the real inverse returns the forward's input "
        "length; (f) kernels limited by a maximum size are rescaled by a sum taken after the limit. NOT decided: every numerical identity of C19 (inverse of "
        "forward, real/complex agreement, Parseval, DFT route = direct convolution, separability, mean preservation)."
    )
    reqs = requests()
    ctx.ex.prefetch(reqs)
    us = [ctx.ex.get(r) for r in reqs]
    if any(u is None for u in us):
        return
    for (cls, ndim), u in zip(CONV, us[:3]):
        fs = [f for f in u.functions if f.short == "do_it" and f.body is not None and not f.is_dependent]
        if not fs:
            ctx.fail_broken("anchor %s::do_it (instantiation) not found" % cls)
            continue
        rule_a(ctx, fs[0], ndim, cls)
    rule_b(ctx, us[3].functions)
    rule_c_padded_route(ctx, us[4].functions)
    rule_d_sign_passed_on(ctx, us[5].functions)
    rule_e_supported_lengths(ctx, us[5].functions)
    rule_f_kernel_sum_kept(ctx, us[6].functions + us[7].functions)
    greqs = [Request(B + c + ".cxx", fn=["stir::.*"], files=["/repo/src/buildblock/%s\\.cxx" % c]) for c, _n in CONV]
    ctx.ex.prefetch(greqs)
    gus = [ctx.ex.get(r) for r in greqs]
    if all(x is not None for x in gus):
        rule_g_influence_ranges_dual(ctx, gus)
        ctx.require_count("C19.g-influence-ranges-dual", 3)
        rule_h_trivial_means_one_element_everywhere(ctx, gus)
        ctx.require_count("C19.h-trivial-only-for-the-one-element-kernel", 3)
    ctx.require_count("C19.f-kernel-sum-kept-after-length-limit", 2)
    ctx.require_count("C19.e-transforms-accept-supported-lengths", 4)
    ctx.require_count("C19.d-sign-passed-on", 14)
    ctx.require_count("C19.c-padded-route-through-modulo-map", 3)
    ctx.require_count("C19.a-convolution-index-bounds", 6)
    ctx.require_count("C19.b-inverse-is-forward-with-opposite-sign-over-n", 2)
