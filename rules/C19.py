"""C19 - Fourier transforms and filters.  Only two structural clauses are decided (the numerical identities are NOT):

 a  the direct-convolution filters stay inside kernel and data and use every admissible kernel element: in
    out[c..] += K[v..] * in[(c - v)..]  the loop of the kernel index v of axis p runs from max(K_min_p, c_p - in_max_p) to
    min(K_max_p, c_p - in_min_p), with K's and in's index range AT THAT NESTING LEVEL (2D and 3D filters; for the 1D filter, whose
    loop start depends on the boundary condition, the upper bound)
 b  the inverse transforms are the forward transform with the opposite sign followed by division by the number of elements
    (inverse_fourier, inverse_fourier_1d): the scale that makes inverse(forward(c)) = c
"""
import re

from engine.algebra import LocalDefs
from engine.extract import Request
from engine.loops import describe
from engine.tree import key

B = "src/buildblock/"
CONV = [("ArrayFilter3DUsingConvolution", 3), ("ArrayFilter2DUsingConvolution", 2), ("ArrayFilter1DUsingConvolution", 1)]


def requests():
    r = [Request(B + c + ".cxx", fn=["stir::%s::do_it" % c], files=["/repo/src/buildblock/%s\\.cxx" % c]) for c, _n in CONV]
    r.append(Request("src/numerics_buildblock/fourier.cxx", fn=["stir::inverse_fourier$", "stir::inverse_fourier_1d$"], files=["/repo/src/include/stir/numerics/fourier.h"]))
    r.append(Request(B + "ArrayFilterUsingRealDFTWithPadding.cxx", fn=["stir::ArrayFilterUsingRealDFTWithPadding::do_it", "stir::transform_array_(to|from)_periodic_indices"], files=["/repo/src/buildblock/ArrayFilterUsingRealDFTWithPadding.cxx", "/repo/src/include/stir/ArrayFunction.inl"]))
    r.append(Request("src/numerics_buildblock/fourier.cxx", fn=["stir::.*fourier.*", "stir::detail::.*", "stir::get_exparray"], files=["/repo/src/include/stir/numerics/fourier.h", "/repo/src/numerics_buildblock/fourier.cxx"]))
    return r


def _chain(n):
    n = n.strip()
    idx = []
    while n.k in ("CXXOperatorCallExpr", "ArraySubscriptExpr") and (n.k == "ArraySubscriptExpr" or n.op == "[]") and len(n.c) == 2:
        idx.insert(0, n.c[1].strip())
        n = n.c[0].strip()
    return n, idx


def _nsubs(s):
    depth, n = 0, 0
    for ch in s:
        if ch == "[":
            if depth == 0:
                n += 1
            depth += 1
        elif ch == "]":
            depth -= 1
    return n


def rule_a(ctx, f, ndim, cls):
    defs = LocalDefs(f)
    sub = {d: defs.single_def(d) for d in defs.decl}
    if len(f.params) != 2:
        ctx.unrec(f.qn, "expected do_it(out, in)")
        return 0
    outp, inp = "v%d" % f.params[0]["d"], "v%d" % f.params[1]["d"]
    loops = {}
    for lp in f.walk():
        if lp.k == "ForStmt":
            d = describe(lp, names=False)
            if d:
                loops[d["d"]] = (d, lp)
            else:
                # `for (; v <= UPPER; ++v)`: the variable is declared (and positioned) before the loop
                c = lp.c[1].strip() if len(lp.c) == 4 else None
                if c is not None and c.k == "BinaryOperator" and c.op == "<=" and c.c[0].strip().k == "DeclRefExpr":
                    loops.setdefault(c.c[0].strip().get("d"), ({"d": c.c[0].strip().get("d"), "init": None, "upper": key(c.c[1].strip()), "step": "1", "node": lp, "upper_node": c.c[1]}, lp))
    n = 0
    accs = [m for m in f.walk() if m.k in ("CompoundAssignOperator", "CXXOperatorCallExpr") and m.op == "+=" and key(_chain(m.c[0])[0]) == outp]
    k = 0
    for a in accs:
        rhs = a.c[1].strip()
        if not (rhs.k in ("BinaryOperator", "CXXOperatorCallExpr") and rhs.op == "*"):
            continue
        x, y = _chain(rhs.c[0]), _chain(rhs.c[1])
        kern, data = (x, y) if key(y[0]) == inp else ((y, x) if key(x[0]) == inp else (None, None))
        if kern is None or len(kern[1]) != ndim:
            continue
        if len(data[1]) != ndim or key(kern[0]) != "this.filter_coefficients":
            continue
        out_idx = _chain(a.c[0])[1]
        for p in range(ndim):
            v = kern[1][p]
            c = out_idx[p] if p < len(out_idx) else None
            di = data[1][p]
            if v.k != "DeclRefExpr" or c is None:
                continue
            vk, ck = key(v), key(c)
            fid = "stir::%s::do_it" % cls
            if key(di) != "(- %s %s)" % (ck, vk):
                # a clamped data index (constant boundary condition) is a different summand: not this rule's shape
                continue
            lp = loops.get(v.get("d"))
            if lp is None:
                ctx.unrec(fid, "kernel index of axis %d is not the variable of a recognised loop" % p)
                continue
            d = lp[0]
            hi = key(d["node"].c[1].strip().c[1].strip(), False, sub) if d["node"].c[1].strip().k == "BinaryOperator" else d["upper"]
            mh = re.fullmatch(r"std::min\((.*)\.get_max_index\(\),\(- %s (.*)\.get_min_index\(\)\)\)" % re.escape(ck), hi or "")
            ok_hi = bool(mh) and mh.group(1).startswith("this.filter_coefficients") and _nsubs(mh.group(1)) == p and mh.group(2).startswith(inp) and _nsubs(mh.group(2)) == p
            det = "upper = %s" % hi
            ok_lo = True
            if d.get("init") is not None:
                vd = [m for m in d["node"].c[0].walk() if m.k == "VarDecl" and m.c]
                lo = key(vd[0].c[0].strip(), False, sub) if vd else "?"
                ml = re.fullmatch(r"std::max\((.*)\.get_min_index\(\),\(- %s (.*)\.get_max_index\(\)\)\)" % re.escape(ck), lo)
                ok_lo = bool(ml) and ml.group(1).startswith("this.filter_coefficients") and _nsubs(ml.group(1)) == p and ml.group(2).startswith(inp) and _nsubs(ml.group(2)) == p
                det = "lower = %s; " % lo + det
            ok = ok_hi and ok_lo
            ctx.ob("C19.a-convolution-index-bounds", fid, "sum@%d:axis%d" % (k, p), ok, a.where(), "kernel index of axis %d runs over max(k_min, c - in_max) .. min(k_max, c - in_min) of that axis" % p if ok else "kernel index of axis %d is not bounded by the kernel's and the data's range of the same axis: %s" % (p, det[:300]))
            n += 1
        k += 1
    return n


def rule_b(ctx, fns):
    n = 0
    seen = set()
    for f in fns:
        if f.short not in ("inverse_fourier", "inverse_fourier_1d") or f.body is None or f.is_dependent or len(f.params) != 2:
            continue
        if (f.short) in seen:
            continue
        seen.add(f.short)
        ck, sk = "v%d" % f.params[0]["d"], "v%d" % f.params[1]["d"]
        fwd = "fourier" if f.short == "inverse_fourier" else "fourier_1d"
        calls = [c for c in f.calls() if (c.callee or "").split("::")[-1] == fwd]
        ok = len(calls) == 1 and [key(a.strip()) for a in calls[0].call_args()] == [ck, "(- %s)" % sk]
        divs = [m for m in f.walk() if m.k in ("CompoundAssignOperator", "CXXOperatorCallExpr") and m.op == "/=" and key(m.c[0].strip()) == ck]
        want = "%s.size_all()" % ck if f.short == "inverse_fourier" else "%s.size()" % ck
        dk = key(divs[0].c[1].strip()) if len(divs) == 1 else "?"
        # the divisor may be converted to the element type (std::complex(n, 0)) - a value-preserving conversion
        dk = re.sub(r"^std::complex::complex\((.*),0(\.0)?\)$", r"\1", dk)
        okd = len(divs) == 1 and dk == want and ok and divs[0].line >= calls[0].line
        ctx.ob("C19.b-inverse-is-forward-with-opposite-sign-over-n", "stir::" + f.short, "definition", ok and okd, f.where(), "%s(c, -sign) followed by c /= %s" % (fwd, want.replace(ck, "c")) if ok and okd else "inverse transform is not the forward transform with the opposite sign divided by the number of elements")
        n += 1
    return n


def rule_c_padded_route(ctx, fns):
    """The padded-DFT filter equals the convolution only if data enter and leave the periodic (0-based, padded) array through the modulo
    map, for ANY index range of input and output:
      c1  do_it, when its arguments are not already in padded form: a fresh array of the padding range is filled by
          transform_array_to_periodic_indices(padded, input), filtered in place by do_it(padded, padded), and the output is read back by
          transform_array_from_periodic_indices(output, padded) - in this order, on every path, nothing else writing the padded array
      c2  the two transforms are the modulo map and its dual: to:  periodic[modulo(i, sizes)] = in[i] for every index i of `in`;
          from: out[i] = periodic[modulo(i, sizes)] for every index i of `out`; sizes = extent of the periodic array"""
    from engine.cfg import CFG
    from engine.tree import root_of_lvalue, written_lvalues

    n = 0
    seen = set()
    for f in fns:
        if f.short != "do_it" or f.cls is None or "RealDFTWithPadding" not in f.cls or f.body is None or f.is_dependent or not f.cfg_raw or len(f.params) != 2 or (f.file, f.line) in seen:
            continue
        seen.add((f.file, f.line))
        cfg = CFG(f)
        outp, inp = "v%d" % f.params[0]["d"], "v%d" % f.params[1]["d"]
        to = [c for c in f.calls() if (c.callee or "") == "stir::transform_array_to_periodic_indices" and c.i in cfg.pos]
        fr = [c for c in f.calls() if (c.callee or "") == "stir::transform_array_from_periodic_indices" and c.i in cfg.pos]
        rec = [c for c in f.calls() if (c.callee or "").endswith("::do_it") and len(c.call_args()) == 2 and key(c.call_args()[0].strip()) == key(c.call_args()[1].strip()) and c.i in cfg.pos]
        fid = f.qn + "<%s>" % (f.params[0]["t"].split("<")[1].split(",")[0] if "<" in f.params[0]["t"] else "")
        ok, det = False, "expected one to_periodic, one in-place do_it and one from_periodic call"
        if len(to) == 1 and len(fr) == 1 and len(rec) == 1:
            P = key(rec[0].call_args()[0].strip())
            d = rec[0].call_args()[0].strip().get("d")
            vd = [m for m in f.walk() if m.k == "VarDecl" and m.get("d") == d]
            fresh = bool(vd) and vd[0].c and vd[0].c[0].strip().k == "CXXConstructExpr" and [key(x.strip()) for x in vd[0].c[0].strip().c] == ["this.padding_range"]
            args_ok = [key(x.strip()) for x in to[0].call_args()] == [P, inp] and [key(x.strip()) for x in fr[0].call_args()] == [outp, P]
            order = cfg.dominates(to[0], rec[0]) and cfg.dominates(rec[0], fr[0])
            # every path from the construction of the padded array to the filtering passes the periodic copy; and from there to the exit the read-back
            g = vd[0] if vd else None
            while g is not None and g.i not in cfg.pos:
                g = g.parent
            allpaths = g is not None and cfg.paths_avoiding([cfg.pos[g.i]], lambda x: x.i == to[0].i, target_pred=lambda x: x.i == rec[0].i, to_exit=False) is None and cfg.must_pass_before_exit([rec[0]], lambda x: x.i == fr[0].i) is None
            others = [m for m in f.walk() if m.i in cfg.pos and m.i not in (to[0].i, rec[0].i, fr[0].i) and (g is None or m.i != g.i) and any(root_of_lvalue(e) == P for e in written_lvalues(m))]
            others = [m for m in others if not (m.k == "VarDecl" or m.k == "DeclStmt")]
            ok = fresh and args_ok and order and allpaths and not others
            det = "fresh array of the padding range <- to_periodic(input) -> do_it in place -> from_periodic(output), on every path" if ok else "padded route: fresh padded array=%s, arguments=%s, order=%s, on every path=%s, other writes to the padded array=%s" % (fresh, args_ok, order, allpaths, [m.line for m in others])
        ctx.ob("C19.c-padded-route-through-modulo-map", fid, "copy-in-filter-copy-out", ok, f.where(), det)
        n += 1
    seen = set()
    for f in fns:
        if f.short not in ("transform_array_to_periodic_indices", "transform_array_from_periodic_indices") or f.body is None or f.is_dependent or len(f.params) != 2 or f.short in seen:
            continue
        seen.add(f.short)
        defs = LocalDefs(f)
        sub = {d: defs.single_def(d) for d in defs.decl}
        outp, inp = "v%d" % f.params[0]["d"], "v%d" % f.params[1]["d"]
        periodic, plain = (outp, inp) if f.short.endswith("to_periodic_indices") else (inp, outp)
        asg = [m for m in f.walk() if m.k in ("BinaryOperator", "CXXOperatorCallExpr") and m.op == "=" and len(m.c) >= 2 and key(_chain(m.c[-2])[0]) == outp]
        ok, det = False, "expected one element assignment"
        if len(asg) == 1:
            lhs, rhs = _chain(asg[0].c[-2]), _chain(asg[0].c[-1])
            loopv = [x for x in (lhs[1] + rhs[1]) if x.k == "DeclRefExpr"]
            iv = key(loopv[0]) if loopv else None
            want_mod = None
            if iv is not None:
                pidx = (lhs if periodic == outp else rhs)[1]
                qidx = (rhs if periodic == outp else lhs)[1]
                mk_ = key(pidx[0], False, sub) if pidx else ""
                mm = re.fullmatch(r"stir::modulo\(%s,(.*)\)" % re.escape(iv), mk_)
                sizes_ok = mm is not None and re.search(r"\(\+ \(- [^ ]+ [^ ]+\) 1\)|\(- \(\+ [^ ]+ 1\) [^ ]+\)", mm.group(1)) is not None
                plain_ok = len(qidx) == 1 and key(qidx[0]) == iv and key(rhs[0]) == inp
                # the index walks over the NON-periodic array: starts at its minimum indices and is advanced by next(index, that array)
                vd = defs.decl.get(loopv[0].get("d"))
                start_ok = vd is not None and vd.c and key(vd.c[0].strip()) == "stir::get_min_indices(%s)" % plain
                nxt = [c for c in f.calls() if (c.callee or "") == "stir::next" and [key(a.strip()) for a in c.call_args()] == [iv, plain]]
                # the sizes come from the periodic array's regular range
                rr = [c for c in f.calls() if (c.callee or "").endswith("::get_regular_range") and key(c.c[0].strip()) == periodic and c.parent is not None]
                ok = mm is not None and sizes_ok and plain_ok and start_ok and len(nxt) == 1 and bool(rr)
                det = "%s[modulo(i, sizes)] %s %s[i] for every index i of the non-periodic array" % ("periodic", "=" if periodic == outp else "->", "in" if periodic == outp else "out") if ok else "not the modulo map over the whole non-periodic array: modulo(index, sizes)=%s sizes=extent=%s plain side=%s start=%s next=%s sizes from the periodic array=%s" % (mm is not None, sizes_ok, plain_ok, start_ok, len(nxt) == 1, bool(rr))
        ctx.ob("C19.c-padded-route-through-modulo-map", "stir::" + f.short, "modulo-map", ok, f.where(), det)
        n += 1
    return n


def rule_d_sign_passed_on(ctx, fns):
    """The multi-dimensional transforms are built from lower-dimensional and one-dimensional ones; all of them take the sign of the
    exponent.  A transform with sign s is the composition of its parts with the SAME s: every call, made from a function that has a
    parameter `sign`, to a function that has a parameter `sign`, passes an expression of the caller's sign for it - written out, never
    left to the callee's default (+1), which would mix exponents of both signs for s = -1."""
    RULE = "C19.d-sign-passed-on"
    # the sign slot of every function of the family, found from the code, not from the parameter's name: a parameter that enters the
    # argument of exp() is a sign (the twiddle factors), and so is a parameter that a function hands to a known sign slot
    sig = {}  # qualified name -> {arity: index of the sign parameter}

    def slot_of(f, d):
        for i, p in enumerate(f.params):
            if p.get("d") == d:
                return i
        return None

    for f in fns:
        if f.body is None:
            continue
        pd = {p["d"] for p in f.params if re.fullmatch(r"(const )?int", (p.get("t") or "").strip())}
        inside = set()
        for c in f.calls():
            if (c.callee or "").split("::")[-1] == "exp":
                inside |= {m.i for m in c.walk()}
        for d in sorted(pd):
            uses = [m for m in f.walk() if m.k == "DeclRefExpr" and m.get("dk") == "param" and m.get("d") == d]
            # the sign enters the exponent and nothing else (a length that also sizes arrays or bounds loops is not the sign)
            free = [m for m in uses if m.i not in inside and not any(a.is_call() and a.callee in sig for a in m.ancestors())]
            if uses and any(m.i in inside for m in uses) and not free:
                sig.setdefault(f.qn, {})[len(f.params)] = slot_of(f, d)
    changed = True
    while changed:
        changed = False
        for f in fns:
            if f.body is None:
                continue
            pd = {p["d"] for p in f.params if re.fullmatch(r"(const )?int", (p.get("t") or "").strip())}
            for c in f.calls():
                if c.callee not in sig:
                    continue
                args = c.call_args()
                for ar, j in sig[c.callee].items():
                    if j is not None and j < len(args) and len(args) <= ar:
                        a = args[j].strip()
                        ds = [m.get("d") for m in a.walk() if m.k == "DeclRefExpr" and m.get("dk") == "param" and m.get("d") in pd]
                        if ds and len(f.params) not in sig.get(f.qn, {}):
                            sig.setdefault(f.qn, {})[len(f.params)] = slot_of(f, ds[0])
                            changed = True
    ctx.stats["functions_with_a_sign_slot"] = len(sig)
    n = 0
    seen = set()
    for f in sorted(fns, key=lambda g: bool(g.is_dependent)):  # an instantiation (resolved callees) before the template pattern
        if f.body is None or (f.file, f.body.line) in seen:
            continue
        j0 = sig.get(f.qn, {}).get(len(f.params))
        mine = [f.params[j0]] if j0 is not None and j0 < len(f.params) else []
        if not mine:
            continue
        seen.add((f.file, f.body.line))
        sk = "v%d" % mine[0]["d"]
        from engine.algebra import LocalDefs

        defs = LocalDefs(f)
        sub = {d: defs.single_def(d) for d in defs.decl}
        for c in f.calls():
            if c.callee not in sig:
                continue
            args = c.call_args()
            # the overload with a `sign` parameter that this call can bind to: same or larger arity (defaults)
            cand = sorted(ar for ar in sig[c.callee] if ar >= len([a for a in args if not a.strip().get("defarg")]))
            if not cand:
                continue
            j = sig[c.callee][cand[0]]
            a = args[j].strip() if j < len(args) else None
            ok = a is not None and not a.get("defarg") and sk in key(a, False, sub)
            ctx.ob(RULE, f.qn.split("<")[0], "%s@%d" % (c.callee.split("::")[-1], c.line), ok, c.where(), "passes `%s` as the sign of %s" % (key(a, True), c.callee.split("::")[-1]) if ok else ("calls %s without the sign (the callee's default +1 is used): for sign = -1 the parts of the transform use exponents of both signs, and the real-data transform no longer agrees with the complex one" % c.callee.split("::")[-1] if a is None or a.get("defarg") else "passes `%s`, which is not an expression of the caller's sign, as the sign of %s" % (key(a, True), c.callee.split("::")[-1])))
            n += 1
    return n


def run(ctx):
    ctx.explanation = (
        "Decides two structural clauses: (a) in the direct-convolution filters (1D, 2D, 3D) the loop of every kernel index runs exactly over "
        "the kernel elements whose data partner exists - max(k_min, c - in_max) .. min(k_max, c - in_min) with the kernel's and the data's "
        "index range of the SAME axis (for the 1D filter, whose start depends on the boundary condition, the upper bound) - so no kernel "
        "coefficient is dropped and none outside the kernel is read; (b) inverse_fourier / inverse_fourier_1d are the forward transform "
        "with the opposite sign followed by division by the number of elements. NOT decided: every numerical identity of C19 (inverse of "
        "forward, real/complex agreement, Parseval, DFT route = direct convolution, separability, mean preservation)."
    )
    reqs = requests()
    ctx.ex.prefetch(reqs)
    us = [ctx.ex.get(r) for r in reqs]
    if any(u is None for u in us):
        return
    for (cls, ndim), u in zip(CONV, us[:3]):
        fs = [f for f in u.functions if f.short == "do_it" and f.body is not None and not f.is_dependent]
        if not fs:
            ctx.fail_broken("anchor %s::do_it (instantiation) not found" % cls)
            continue
        rule_a(ctx, fs[0], ndim, cls)
    rule_b(ctx, us[3].functions)
    rule_c_padded_route(ctx, us[4].functions)
    rule_d_sign_passed_on(ctx, us[5].functions)
    ctx.require_count("C19.d-sign-passed-on", 14)
    ctx.require_count("C19.c-padded-route-through-modulo-map", 3)
    ctx.require_count("C19.a-convolution-index-bounds", 6)
    ctx.require_count("C19.b-inverse-is-forward-with-opposite-sign-over-n", 2)
