"""C09 - priors (QuadraticPrior, RelativeDifferencePrior, LogcoshPrior).  Decided clauses:

 a  RF1  neighbours stay inside the image: every subscript [c + dc] uses an offset dc that loops from
         max(w_min, c_min - c) to min(w_max, c_max - c) for the same axis c
 b  RF7  every neighbourhood summand carries weights[dz][dy][dx], is multiplied under do_kappa by
         kappa[z][y][x]*kappa[z+dz][y+dy][x+dx], and the result is multiplied exactly once by penalisation_factor
 c  RF11 calculus of the potential (closed-form algebra, both signs of x-y):
         gradient summand  = d/dx [phi(x,y) + phi(y,x)]  (each unordered pair is visited twice), with the scale factors of
         compute_value / compute_gradient taken into account;  derivative_20 = d(gradient summand)/dx / w,
         derivative_11 = d(gradient summand)/dy / w;  derivative_11 is symmetric;  gradient summand vanishes for x == y
"""
import re

import sympy

from engine.algebra import Algebra, LocalDefs
from engine.cfg import CFG
from engine.extract import Request
from engine.loops import describe
from engine.tree import key

D = "src/recon_buildblock/"
PRIORS = [("QuadraticPrior", D + "QuadraticPrior.cxx"), ("RelativeDifferencePrior", D + "RelativeDifferencePrior.cxx"), ("LogcoshPrior", D + "LogcoshPrior.cxx")]
AXES = (("z", "dz", 0), ("y", "dy", 1), ("x", "dx", 2))


def requests():
    return [Request(src, fn=["stir::%s::.*" % cls], rec=["stir::%s" % cls], files=["/repo/" + re.escape(src), "/repo/src/include/stir/recon_buildblock/%s\\.h" % cls]) for cls, src in PRIORS]


def insts(u):
    by = {}
    for f in u.functions:
        by.setdefault((f.file, f.body.line if f.body is not None else f.line, f.qn, len(f.params)), []).append(f)
    out = []
    for _k, fs in sorted(by.items()):
        i = [f for f in fs if not f.is_dependent]
        out.append((i or fs)[0])
    return [f for f in out if f.body is not None]


# ------------------------------------------------------------------------------------------------ a
def _chain(n):
    """(root node, [index nodes]) of a subscript chain x[i][j][k] (through operator[] calls)"""
    n = n.strip()
    idx = []
    while n.k in ("CXXOperatorCallExpr", "ArraySubscriptExpr") and (n.k == "ArraySubscriptExpr" or n.op == "[]") and len(n.c) == 2:
        idx.insert(0, n.c[1].strip())
        n = n.c[0].strip()
    return n, idx


def _depth_of_range(k, suffix):
    """IMG[..]..[..].get_min_index() -> (IMG[..]..[..], number of subscripts) or None"""
    if not k.endswith(suffix):
        return None
    base = k[: -len(suffix)]
    return base, _toplevel_subscripts(base)


def axes_of(f, defs=None):
    """neighbourhood axes of a function, found from the code: list of dicts(c=decl id of the voxel coordinate, d=decl id of the
    offset, level, ok, detail, node) for every distinct subscript [c + d] where d is the variable of an enclosing counting loop"""
    defs = defs or LocalDefs(f)
    sub = {d: defs.single_def(d) for d in defs.decl}
    loops = {}
    for lp in f.walk():
        if lp.k == "ForStmt":
            d = describe(lp, names=False)
            if d:
                loops[d["d"]] = (d, lp)
    out = []
    seen = set()
    for s in f.walk():
        if not (s.k == "CXXOperatorCallExpr" and s.op == "[]" and len(s.c) == 2):
            continue
        idx = s.c[1].strip()
        if not (idx.k == "BinaryOperator" and idx.op == "+"):
            continue
        a, b = idx.c[0].strip(), idx.c[1].strip()
        if a.k != "DeclRefExpr" or b.k != "DeclRefExpr":
            continue
        # the offset is the operand that is the variable of an enclosing counting loop whose bounds are max()/min() forms
        if b.get("d") not in loops and a.get("d") in loops:
            a, b = b, a
        cd, dd = a.get("d"), b.get("d")
        if (cd, dd) in seen:
            continue
        seen.add((cd, dd))
        pos = len(_chain(s.c[0])[1])  # number of subscripts before this one: the axis this subscript addresses
        rec = dict(c=cd, d=dd, level=pos, ok=False, node=s, cname=a.get("n"), dname=b.get("n"))
        if dd not in loops or not any(anc is loops[dd][1] for anc in s.ancestors()):
            rec["detail"] = "%s is not the variable of an enclosing counting loop" % b.get("n")
            out.append(rec)
            continue
        lp = loops[dd][0]
        if lp["step"] != "1":
            rec["detail"] = "offset loop of %s does not advance by 1" % b.get("n")
            out.append(rec)
            continue
        ckey = key(a, False, sub)
        lo = _resolve(f, defs, lp["node"].c[0], "init")
        hi = _resolve_upper(f, defs, lp["node"].c[1])
        rec["lo"], rec["hi"], rec["ckey"] = lo, hi, ckey
        # a bound may be tightened to the voxel itself under some condition (`cond ? 0 : max(..)`): offset 0 is always inside the image
        mt_lo = re.fullmatch(r"\(\?: (.+) 0 (std::max\(.*\))\)", lo or "")
        mt_hi = re.fullmatch(r"\(\?: (.+) 0 (std::min\(.*\))\)", hi or "")
        if mt_lo and mt_hi and mt_lo.group(1) == mt_hi.group(1):
            lo, hi = mt_lo.group(2), mt_hi.group(2)
            rec["tightened"] = mt_lo.group(1)
        # lo = max(W.get_min_index(), cmin - c) ; hi = min(W.get_max_index(), cmax - c)   (either argument order)
        mlo = re.fullmatch(r"std::max\((.*)\.get_min_index\(\),\(- (.*) %s\)\)" % re.escape(ckey), lo or "") or _swapped(r"std::max", r"get_min_index", ckey, lo)
        mhi = re.fullmatch(r"std::min\((.*)\.get_max_index\(\),\(- (.*) %s\)\)" % re.escape(ckey), hi or "") or _swapped(r"std::min", r"get_max_index", ckey, hi)
        if mlo and mhi:
            cmin, cmax = mlo.group(2), mhi.group(2)
            # cmin/cmax are the index range of the image at this nesting level
            rmin, rmax = _depth_of_range(cmin, ".get_min_index()"), _depth_of_range(cmax, ".get_max_index()")
            same = rmin is not None and rmax is not None and rmin[0] == rmax[0]
            level = rmin[1] if rmin else -1
            wlevel = _toplevel_subscripts(mlo.group(1))
            # the coordinate itself runs over that same range (its own loop), so c + d stays inside [cmin, cmax]
            cl = loops.get(cd)
            crange = cl is not None and key(cl[0]["node"].c[0].find(lambda m: m.k == "VarDecl" and m.c)[0].c[0].strip(), False, sub) == cmin if cl and cl[0]["node"].c[0].find(lambda m: m.k == "VarDecl" and m.c) else None
            rec["ok"] = bool(same) and level == pos and mlo.group(1) == mhi.group(1) and wlevel == pos
            rec["detail"] = "offset in [max(w_min, %s - c), min(w_max, %s - c)] for axis %d" % (cmin[-40:], cmax[-40:], pos)
            if not rec["ok"]:
                rec["detail"] = "bounds of %s along %s (axis %d) use weights extent %s / %s (axis %d) and image range %s / %s (axis %d): not the extents of that axis" % (b.get("n"), a.get("n"), pos, mlo.group(1)[-30:], mhi.group(1)[-30:], wlevel, cmin[-40:], cmax[-40:], level)
        else:
            rec["detail"] = "bounds of %s are %s .. %s, not max(w_min, c_min - c) .. min(w_max, c_max - c)" % (b.get("n"), lo, hi)
        out.append(rec)
    return out


def _swapped(fn, acc, ckey, k):
    m = re.fullmatch(r"%s\(\(- (.*) %s\),(.*)\.%s\(\)\)" % (fn, re.escape(ckey), acc), k or "")
    if not m:
        return None

    class M:
        def __init__(self, a, b):
            self.g = (None, a, b)

        def group(self, i):
            return self.g[i]

    return M(m.group(2), m.group(1))


def rule_a(ctx, cls, fns):
    n = 0
    for f in fns:
        ax = axes_of(f)
        cnt = {}
        for r in ax:
            k = cnt.get(r["level"], 0)
            cnt[r["level"]] = k + 1
            ctx.ob("C09.a-neighbours-inside-image", f.qn + "/" + str(len(f.params)), "axis%d#%d" % (r["level"], k), r["ok"], r["node"].where(), r["detail"])
            n += 1
    return n


def rule_e_one_neighbourhood(ctx, cls, fns):
    """Value, gradient, Hessian row, Hessian-times-vector (and the surrogate curvature) of one prior are derivatives of each other only
    if they all sum over the SAME neighbourhood: for every axis, the offset range of each of these functions is the same expression of
    its own image, centre coordinate and the weights (names abstracted)."""
    ENTRY = ("compute_value", "compute_gradient", "compute_Hessian", "accumulate_Hessian_times_input", "parabolic_surrogate_curvature")
    per_axis = {}
    for f in fns:
        if f.short not in ENTRY or f.body is None:
            continue
        axs = [r for r in axes_of(f) if r.get("lo") is not None and r.get("hi") is not None]
        centre = {}
        for r in axs:
            centre.setdefault(r["ckey"], "$c%d" % r["level"])
        for r in axs:
            canon = []
            for b in (r["lo"], r["hi"]):
                t = b
                for ck_, role in sorted(centre.items(), key=lambda kv: -len(kv[0])):
                    t = t.replace(ck_, role)
                names = {}
                t = re.sub(r"v\d+", lambda m: names.setdefault(m.group(0), "$%d" % len(names)), t)
                canon.append(t)
            per_axis.setdefault(r["level"], {}).setdefault((f.short, len(f.params)), (tuple(canon), r["node"]))
    n = 0
    for level, by in sorted(per_axis.items()):
        shapes = {}
        for who, (canon, node) in by.items():
            shapes.setdefault(canon, []).append((who, node))
        ok = len(shapes) == 1
        if ok:
            det = "%d functions sum over the same offsets along axis %d" % (len(by), level)
            where = next(iter(by.values()))[1].where()
        else:
            minority = min(shapes.values(), key=len)
            majority = max(shapes.values(), key=len)
            where = minority[0][1].where()
            det = "along axis %d, %s sum(s) over %s .. %s while %s sum(s) over %s .. %s: they are no longer derivatives of one another" % (level, ", ".join(w[0] for w, _n in minority), *[k for k, v in shapes.items() if v is minority][0], ", ".join(w[0] for w, _n in majority), *[k for k, v in shapes.items() if v is majority][0])
        ctx.ob("C09.e-one-neighbourhood", "stir::" + cls, "axis%d" % level, ok, where, det)
        n += 1
    return n


def _toplevel_subscripts(s):
    depth, n = 0, 0
    for ch in s:
        if ch == "[":
            if depth == 0:
                n += 1
            depth += 1
        elif ch == "]":
            depth -= 1
    return n


def _resolve(f, defs, init_node, what):
    vd = [m for m in init_node.walk() if m.k == "VarDecl" and m.c]
    if not vd:
        return None
    sub = {d: defs.single_def(d) for d in defs.decl}
    return key(vd[0].c[0].strip(), False, sub)


def _resolve_upper(f, defs, cond):
    c = cond.strip()
    sub = {d: defs.single_def(d) for d in defs.decl}
    if c.k == "BinaryOperator" and c.op == "<=":
        return key(c.c[1].strip(), False, sub)
    if c.k == "BinaryOperator" and c.op == "<":
        # v < B + 1  is the inclusive bound B
        o = c.c[1].strip()
        if o.k == "BinaryOperator" and o.op == "+" and key(o.c[1].strip()) == "1":
            return key(o.c[0].strip(), False, sub)
        return "(- %s 1)" % key(o, False, sub)
    return None


# ------------------------------------------------------------------------------------------------ b / c
def summand(ctx, f, helpers, sgn):
    """the neighbourhood summand of compute_value / compute_gradient, found from the code: the local that is accumulated (`acc +=
    local`) inside the innermost offset loop.  Returns its sympy expression before the kappa multiplication (voxel values X_c, X_nb,
    weight w, by their subscripts), whether the kappa factor is right, the algebra object and the accumulator's declaration id."""
    defs = LocalDefs(f)
    sub = {d: defs.single_def(d) for d in defs.decl}
    ax = [r for r in axes_of(f, defs) if r["ok"]]
    bylevel = {}
    for r in ax:
        bylevel.setdefault(r["level"], r)
    if sorted(bylevel) != [0, 1, 2]:
        return None
    cs = ["v%d" % bylevel[i]["c"] for i in range(3)]
    ds = ["v%d" % bylevel[i]["d"] for i in range(3)]
    centre = cs
    neigh = ["(+ %s %s)" % (c, d) for c, d in zip(cs, ds)]
    neigh2 = ["(+ %s %s)" % (d, c) for c, d in zip(cs, ds)]
    offset_decls = {bylevel[i]["d"] for i in range(3)}

    def inside_offset_loops(n):
        k = set()
        for a in n.ancestors():
            if a.k == "ForStmt":
                d = describe(a, names=False)
                if d and d["d"] in offset_decls:
                    k.add(d["d"])
        return k == offset_decls

    # the accumulation statement  acc += current   with current a local declared inside the offset loops
    accs = []
    for m in f.walk():
        if m.k == "CompoundAssignOperator" and m.op == "+=":
            r = m.c[1].strip()
            l = m.c[0].strip()
            if r.k == "DeclRefExpr" and r.get("dk") == "local" and l.k == "DeclRefExpr" and l.get("dk") == "local" and inside_offset_loops(m):
                vd = defs.decl.get(r.get("d"))
                if vd is not None and inside_offset_loops(vd):
                    accs.append(m)
    if len(accs) != 1:
        return None
    acc = accs[0]
    cur = acc.c[1].strip().get("d")
    curk = "v%d" % cur
    cur_decl = defs.decl[cur]

    def subs_name(n):
        root, idx = _chain(n)
        if len(idx) != 3:
            return None
        ks = [key(i, False, sub) for i in idx]
        rk = key(root, False, sub)
        if ks == ds and rk == "this.weights":
            return "w"
        shifted = None
        if ks == centre:
            shifted = False
        elif all(k in (a, b) for k, a, b in zip(ks, neigh, neigh2)):
            shifted = True
        if shifted is None:
            return None
        if "kappa" in rk:
            return "K_nb" if shifted else "K_c"
        if "DiscretisedDensity" in root.type or "VoxelsOnCartesianGrid" in root.type or root.k == "DeclRefExpr":
            return "X_nb" if shifted else "X_c"
        return None

    alg = Algebra(f, names=False, inline=True)
    alg.helpers = helpers
    alg.abs_sign = sgn
    alg.subscript_symbols = subs_name
    # value of the summand before the kappa multiplication: its initialiser, or its last plain assignment (RDP value has an if/else)
    inits = [cur_decl.c[0]] if cur_decl.c else []
    assigns = [m for m in f.walk() if m.k == "BinaryOperator" and m.op == "=" and key(m.c[0]) == curk]
    exprs = [alg.expr(e) for e in inits] + [alg.expr(m.c[1]) for m in assigns]
    exprs = [e for e in exprs if e.free_symbols]
    if not exprs:
        return None
    E = exprs[-1] if len(exprs) > 1 else exprs[0]
    # kappa: current *= K_c * K_nb under a test that the kappa image exists
    kap = [m for m in f.walk() if m.k == "CompoundAssignOperator" and m.op == "*=" and key(m.c[0]) == curk]
    kap_ok = False
    for m in kap:
        e = sympy.expand(alg.expr(m.c[1]))
        guard = [a for a in m.ancestors() if a.k == "IfStmt"]
        gk = key(guard[0].c[0], False, sub) if guard else ""
        if e == alg.sym("K_c") * alg.sym("K_nb") and guard and "kappa_ptr" in gk and "is_null_ptr" in gk and gk.startswith("(!"):
            kap_ok = True
    return {"E": E, "kappa_ok": kap_ok, "alg": alg, "acc": acc, "accd": acc.c[0].strip().get("d")}


def scale_of(f, accd):
    """multiplier applied to the accumulated sum: `return acc * pf [/ 2]`  or  `out[z][y][x] = acc * pf`, also when the scaled value
    passes through locals that are defined once.  Returns None when no single such result expression is found (not recognised)."""
    alg = Algebra(f, names=False, inline=True)
    defs = alg.defs
    cands = []

    def mentions(n, depth=0):
        for m in n.walk():
            if m.k != "DeclRefExpr":
                continue
            if m.get("d") == accd:
                return True
            if m.get("dk") == "local" and depth < 6:
                init = defs.single_def(m.get("d"))
                if init is not None and mentions(init, depth + 1):
                    return True
        return False

    for m in f.walk():
        if m.k == "ReturnStmt" and m.c and mentions(m.c[0]):
            cands.append(m.c[0])
        if m.k in ("BinaryOperator", "CXXOperatorCallExpr") and m.op == "=" and len(m.c) == 2 and mentions(m.c[1]) and len(_chain(m.c[0])[1]) == 3:
            cands.append(m.c[1])
    if len(cands) != 1:
        return None
    e = sympy.expand(alg.expr(cands[0]))
    a = alg.sym("v%d" % accd)
    c = sympy.expand(sympy.diff(e, a))
    if sympy.expand(e - c * a) != 0:
        return None
    return c


def rule_bc(ctx, cls, fns):
    byname = {}
    for f in fns:
        byname.setdefault(f.short, []).append(f)
    helpers = {}
    for h in ("value", "derivative_10", "derivative_20", "derivative_11"):
        for f in byname.get(h, []):
            if len(f.params) == 2:
                helpers[f.qn] = f
    sgn = sympy.Symbol("sgn", real=True)
    cv = [f for f in byname.get("compute_value", []) if len(f.params) == 1]
    cg = [f for f in byname.get("compute_gradient", []) if len(f.params) == 2]
    if not cv or not cg:
        ctx.fail_broken("%s: compute_value / compute_gradient not found" % cls)
        return
    V = summand(ctx, cv[0], helpers, sgn)
    G = summand(ctx, cg[0], helpers, sgn)
    if V is None or G is None:
        ctx.unrec("stir::%s" % cls, "neighbourhood summand / accumulation not recognised in compute_value or compute_gradient")
        return
    # logcosh helper: log(cosh(.)) (even function; the class's own large-argument approximation is a numerical device)
    lc = sympy.Function("logcosh")
    sv = scale_of(cv[0], V["accd"])
    sg = scale_of(cg[0], G["accd"])
    pfs = [s for s in (sv.free_symbols if sv is not None else set()) if "penalisation_factor" in s.name]
    for what, sc, f in (("value", sv, cv[0]), ("gradient", sg, cg[0])):
        if sc is None:
            ctx.unrec(f.qn, "C09.b: the one place where the accumulated sum becomes the result (return / out[z][y][x] = sum * factor, linear in the sum) was not found")
            continue
        ok = len([s for s in sc.free_symbols if "penalisation_factor" in s.name]) == 1 and sympy.degree(sc, [s for s in sc.free_symbols if "penalisation_factor" in s.name][0]) == 1
        ctx.ob("C09.b-weights-kappa-penalisation", "stir::%s::compute_%s" % (cls, what), "penalisation-factor-once", ok, f.where(), "result = sum * (%s)" % sc if ok else "the accumulated sum is not multiplied exactly once by penalisation_factor (%s)" % sc)
    for what, S, f in (("value", V, cv[0]), ("gradient", G, cg[0])):
        w = S["alg"].sym("w")
        E = S["E"]
        lin = sympy.simplify(sympy.diff(E, w, 2)) == 0 and sympy.simplify(E.subs(w, 0)) == 0
        ctx.ob("C09.b-weights-kappa-penalisation", "stir::%s::compute_%s" % (cls, what), "summand-carries-weight", lin, f.where(), "summand is weights[dz][dy][dx] times a function of the two voxel values" if lin else "summand is not proportional to weights[dz][dy][dx]")
        ctx.ob("C09.b-weights-kappa-penalisation", "stir::%s::compute_%s" % (cls, what), "kappa-product", S["kappa_ok"], f.where(), "under do_kappa the summand is multiplied by kappa[z][y][x]*kappa[z+dz][y+dy][x+dx]" if S["kappa_ok"] else "kappa factor missing or not the product of both voxels' kappa")
    if sv is None or sg is None:
        return
    x, y = sympy.symbols("x y", real=True)

    def in_xy(S):
        a = S["alg"]
        e = S["E"].subs({a.sym("X_c"): x, a.sym("X_nb"): y})
        # user-level function symbols for calls that were not inlined (logcosh)
        for s in list(e.free_symbols):
            m = re.fullmatch(r".*logcosh\((.*)\)", s.name)
            if m:
                pass
        return e

    phi = in_xy(V)
    g = in_xy(G)
    # replace an opaque logcosh(...) symbol by log(cosh(argument)) - the argument is recovered from the call node
    phi = _logcosh_to_closed_form(V, phi, x, y)
    pf_v = [s for s in sv.free_symbols if "penalisation_factor" in s.name][0]
    pf_g = [s for s in sg.free_symbols if "penalisation_factor" in s.name][0]
    cvn = sympy.simplify(sv / pf_v)
    cgn = sympy.simplify(sg / pf_g)
    okall = True
    dets = []
    for sval in (1, -1):
        ph = phi.subs(sgn, sval)
        gg = g.subs(sgn, sval)
        ph_sw = phi.subs(sgn, -sval).subs({x: y, y: x}, simultaneous=True)  # phi(y,x): the sign of (y-x) is the opposite
        lhs = cvn * (sympy.diff(ph, x) + sympy.diff(ph_sw, x))
        d = sympy.simplify(lhs - cgn * gg)
        if d != 0:
            okall = False
            dets.append("sign(x-y)=%+d: d/dx[phi(x,y)+phi(y,x)]*%s - gradient summand*%s = %s" % (sval, cvn, cgn, str(d)[:120]))
    ctx.ob("C09.c-calculus", "stir::%s" % cls, "gradient=d(value)", okall, cg[0].where(), "gradient summand equals d/dx of the value's two visits of the pair, for both signs of x-y (scale factors %s, %s)" % (cvn, cgn) if okall else "; ".join(dets))
    # gradient vanishes for uniform images
    z0 = all(sympy.simplify(g.subs(sgn, s).subs(y, x)) == 0 for s in (1, -1))
    ctx.ob("C09.c-calculus", "stir::%s" % cls, "gradient-zero-for-equal-voxels", z0, cg[0].where(), "summand vanishes for x == y" if z0 else "gradient summand does not vanish for x == y")
    # second derivatives
    w = G["alg"].sym("w")
    for name, var in (("derivative_20", x), ("derivative_11", y)):
        hs = [h for q, h in helpers.items() if q.endswith("::" + name)]
        if not hs:
            ctx.ob("C09.c-calculus", "stir::%s" % cls, name, False, cg[0].where(), "%s not found" % name)
            continue
        h = hs[0]
        ok = True
        det = []
        for sval in (1, -1):
            a = Algebra(h, names=False)
            a.syms = G["alg"].syms
            a.helpers = helpers
            a.abs_sign = sympy.Integer(sval)
            a.bind = {h.params[0]["d"]: x, h.params[1]["d"]: y}
            rets = [r for r in h.walk() if r.k == "ReturnStmt" and r.c]
            es = [a.expr(r.c[0]) for r in rets]
            es = [e for e in es if not e.has(sympy.oo) and (e.free_symbols or len(rets) == 1) and "INFINITY" not in str(e)]
            if not es:
                ok = False
                det.append("no closed-form return")
                continue
            e = es[0]
            want = sympy.diff(g.subs(sgn, sval), var) / w
            d = sympy.simplify(e - want)
            if d != 0:
                ok = False
                det.append("sign(x-y)=%+d: %s(x,y) - d(gradient summand)/d%s / w = %s" % (sval, name, var, str(d)[:120]))
            if name == "derivative_11":
                sw = e.subs({x: y, y: x}, simultaneous=True)
                # exchanging x and y flips the sign of x-y
                a2 = Algebra(h, names=False)
                a2.syms = G["alg"].syms
                a2.helpers = helpers
                a2.abs_sign = sympy.Integer(-sval)
                a2.bind = {h.params[0]["d"]: y, h.params[1]["d"]: x}
                es2 = [a2.expr(r.c[0]) for r in rets]
                es2 = [q for q in es2 if "INFINITY" not in str(q) and (q.free_symbols or len(rets) == 1)]
                if es2 and sympy.simplify(es2[0] - e) != 0:
                    ok = False
                    det.append("derivative_11(x,y) != derivative_11(y,x)")
        ctx.ob("C09.c-calculus", "stir::%s" % cls, name, ok, h.where(), "%s equals the corresponding partial derivative of the gradient summand%s" % (name, " and is symmetric" if name == "derivative_11" else "") if ok else "; ".join(det))


def _logcosh_to_closed_form(S, e, x, y):
    # find a call to logcosh in the summand and turn the opaque symbol into log(cosh(arg))
    for s in list(e.free_symbols):
        if "logcosh(" in s.name:
            f = S["alg"].fn
            calls = [c for c in f.walk() if c.is_call() and (c.callee or "").endswith("::logcosh")]
            if calls:
                a = S["alg"]
                arg = a.expr(calls[0].call_args()[0]).subs({a.sym("X_c"): x, a.sym("X_nb"): y})
                e = e.subs(s, sympy.log(sympy.cosh(arg)))
    return e


# ------------------------------------------------------------------------------------------------ d: Hessian times input
def rule_d_hessian_times_input(ctx, cls, fns):
    """accumulate_Hessian_times_input(output, current_estimate, input): by straight-line evaluation of the innermost neighbourhood
    loop body, the summand is  w * (d20(x_c, x_nb) * v_c + d11(x_c, x_nb) * v_nb)  for every neighbour (times the kappa product), the voxel
    itself contributes nothing (skipped, or the same formula), and every `if (..) continue;` shortcut only skips summands that are zero under its condition
    (H v must stay linear in v: a shortcut on the neighbour's input value alone would drop the d20 * v_c part)."""
    n = 0
    for f in fns:
        if f.short != "accumulate_Hessian_times_input" or f.body is None or len(f.params) != 3:
            continue
        defs = LocalDefs(f)
        sub = {d: defs.single_def(d) for d in defs.decl}
        ax = [r for r in axes_of(f, defs) if r["ok"]]
        bylevel = {}
        for r in ax:
            bylevel.setdefault(r["level"], r)
        fid = "stir::%s::accumulate_Hessian_times_input" % cls
        if sorted(bylevel) != [0, 1, 2]:
            ctx.unrec(fid, "neighbourhood axes not recognised")
            continue
        cs = ["v%d" % bylevel[i]["c"] for i in range(3)]
        ds = ["v%d" % bylevel[i]["d"] for i in range(3)]
        neigh = [("(+ %s %s)" % (c, d), "(+ %s %s)" % (d, c)) for c, d in zip(cs, ds)]
        est, inp = "v%d" % f.params[1]["d"], "v%d" % f.params[2]["d"]
        innermost = None
        for lp in f.walk():
            if lp.k == "ForStmt":
                d = describe(lp, names=False)
                if d and "v%d" % d["d"] == ds[2]:
                    innermost = lp
        if innermost is None:
            ctx.unrec(fid, "innermost offset loop not found")
            continue
        body = innermost.c[3]
        stmts = body.c if body.k == "CompoundStmt" else [body]

        def subs_name(m):
            root, idx = _chain(m)
            if len(idx) != 3:
                return None
            ks = [key(i, False, sub) for i in idx]
            rk = key(root, False, sub)
            if ks == ds and rk == "this.weights":
                return "w"
            if ks == cs:
                shifted = False
            elif all(k in ab for k, ab in zip(ks, neigh)):
                shifted = True
            else:
                return None
            if "kappa" in rk:
                return "K_nb" if shifted else "K_c"
            if rk == est:
                return "X_nb" if shifted else "X_c"
            if rk == inp:
                return "V_nb" if shifted else "V_c"
            return None

        alg = Algebra(f, names=False, inline=True)
        alg.subscript_symbols = subs_name
        D20, D11 = sympy.Symbol("D20", real=True), sympy.Symbol("D11", real=True)
        Xc, Xn = alg.sym("X_c"), alg.sym("X_nb")

        def ev(e):
            """expression -> sympy, with derivative_20/11(x_c, x_nb) as the symbols D20 / D11"""
            v = alg.expr(e)
            for s_ in list(v.free_symbols):
                if "derivative_20(" in s_.name or "derivative_11(" in s_.name:
                    calls = [c for c in e.walk() if c.is_call() and (c.callee or "").split("::")[-1] in ("derivative_20", "derivative_11")]
                    for c in calls:
                        if alg.sym(alg.symkey(c)) == s_:
                            a = [alg.expr(x) for x in c.call_args()]
                            nm = (c.callee or "").split("::")[-1]
                            if a == [Xc, Xn]:
                                v = v.subs(s_, D20 if nm == "derivative_20" else D11)
            return v

        centre_skipped = False
        cur = None  # decl id of the summand local
        state = {}  # "centre"/"off" -> expression
        skips = []  # (condition atoms as sympy expressions that are compared with 0, node)
        acc = None
        okshape = True
        why = ""
        for st in stmts:
            if st.k == "DeclStmt" or st.k == "VarDecl":
                vds = [m for m in st.walk() if m.k == "VarDecl"]
                for vd in vds:
                    if vd.c and cur is None:
                        cur = vd.get("d")
                        e0 = ev(vd.c[0])
                        state = {"centre": e0, "off": e0}
                continue
            if st.k == "IfStmt":
                cond = st.c[0].strip()
                then = st.c[1]
                is_continue = then.k == "ContinueStmt" or (then.k == "CompoundStmt" and len(then.c) == 1 and then.c[0].k == "ContinueStmt")
                ck0 = key(cond, False, sub)
                if is_continue and len(st.c) == 2 and all(("(== %s 0)" % d) in ck0 for d in ds) and "||" not in ck0:
                    # `if (all offsets are 0) continue;`: the voxel is not its own neighbour
                    centre_skipped = True
                    continue
                if is_continue and len(st.c) == 2:
                    atoms_ = []
                    todo = [cond]
                    while todo:
                        c = todo.pop().strip()
                        while c.k == "ParenExpr" and c.c:
                            c = c.c[0].strip()
                        if c.k == "BinaryOperator" and c.op == "||":
                            todo += [c.c[0], c.c[1]]
                        elif c.k in ("BinaryOperator", "CXXOperatorCallExpr") and c.op == "==" and len(c.c) == 2:
                            l, r = c.c[0].strip(), c.c[1].strip()
                            rv = ev(r)
                            if rv == 0:
                                lv = ev(l)
                                if cur is not None and key(l) == "v%d" % cur:
                                    lv = state["off"]
                                atoms_.append(lv)
                            else:
                                atoms_.append(None)
                        else:
                            atoms_.append(None)
                    skips.append((atoms_, st))
                    continue
                ck = key(cond, False, sub)
                centre_test = all(("(== %s 0)" % d) in ck for d in ds) and "||" not in ck
                if centre_test and cur is not None and len(st.c) == 3:
                    for branch, node in (("centre", st.c[1]), ("off", st.c[2])):
                        ups = [m for m in node.walk() if m.k == "CompoundAssignOperator" and m.op == "*=" and key(m.c[0].strip()) == "v%d" % cur]
                        if len(ups) != 1:
                            okshape, why = False, "centre/off-centre branch is not a single `summand *= ...`"
                        else:
                            state[branch] = state[branch] * ev(ups[0].c[1])
                    continue
                ups = [m for m in st.c[1].walk() if m.k == "CompoundAssignOperator" and m.op == "*=" and cur is not None and key(m.c[0].strip()) == "v%d" % cur]
                if len(ups) == 1 and len(st.c) == 2 and "kappa_ptr" in ck:
                    kf = ev(ups[0].c[1])
                    if sympy.expand(kf - alg.sym("K_c") * alg.sym("K_nb")) != 0:
                        okshape, why = False, "kappa factor is not kappa[c]*kappa[c+d]"
                    continue
                okshape, why = False, "unrecognised if-statement at line %d" % st.line
                continue
            if st.k == "CompoundAssignOperator" and st.op == "+=" and cur is not None and key(st.c[1].strip()) == "v%d" % cur:
                acc = st
                continue
            if st.k == "CompoundAssignOperator" and st.op == "*=" and cur is not None and key(st.c[0].strip()) == "v%d" % cur:
                e = ev(st.c[1])
                state = {k_: v_ * e for k_, v_ in state.items()}
                continue
            if st.k in ("NullStmt",):
                continue
            okshape, why = False, "unrecognised statement %s at line %d" % (st.k, st.line)
        if cur is None or acc is None or not okshape:
            ctx.unrec(fid, "innermost loop body not understood: %s" % (why or "no summand / accumulation"))
            continue
        w, Vc, Vn = alg.sym("w"), alg.sym("V_c"), alg.sym("V_nb")
        want_off = w * (D20 * Vc + D11 * Vn)
        # the voxel itself: value and gradient get nothing from the j == k term (a function of x_j - x_j), so neither may H v.  The term
        # is either skipped, or computed with the same formula as any neighbour (d20(x,x) + d11(x,x) = 0 is clause c's obligation).
        want_c = want_off
        ok_off = sympy.expand(state["off"] - want_off) == 0
        ok_c = centre_skipped or sympy.expand(state["centre"] - want_c) == 0
        ok1 = ok_off and ok_c
        ctx.ob("C09.d-hessian-times-input", fid, "summand", ok1, acc.where(), "summand = w*(d20(x_c,x_nb)*v_c + d11(x_c,x_nb)*v_nb) for every neighbour; the voxel itself %s" % ("is skipped" if centre_skipped else "is treated like a neighbour (contributes (d20+d11)(x,x) v = 0)") if ok1 else ("summand is %s off the centre" % state["off"] if not ok_off else "at the centre the summand is %s: the j == k term contributes nothing to value and gradient, but this adds w[0][0][0]*d20(x_j,x_j)*v_j to H v for weights with a non-zero centre element" % state["centre"]))
        n += 1
        want_c = 0 * w if centre_skipped else want_off
        for i, (atoms_, st) in enumerate(skips):
            bad = []
            for a in atoms_:
                if a is None:
                    bad.append("a condition that is not of the form <expr> == 0")
                    continue
                syms = list(a.free_symbols)
                if a.is_Symbol:
                    rest = [sympy.simplify(want_off.subs(a, 0)), sympy.simplify(want_c.subs(a, 0))]
                elif a == 0:
                    rest = [0, 0]
                else:
                    rest = [1]
                if any(r != 0 for r in rest):
                    bad.append("`%s == 0` skips a summand that is still %s" % (a, [str(r) for r in rest if r != 0][0]))
            ctx.ob("C09.d-hessian-times-input", fid, "shortcut@%d" % i, not bad, st.where(), "the `continue` shortcut only skips summands that vanish under its condition (%s)" % ", ".join("%s == 0" % a for a in atoms_) if not bad else "; ".join(bad))
            n += 1
    return n


# ------------------------------------------------------------------------------------------------ g
def rule_g_assigned_output_complete(ctx, cls, fns):
    """A member function that ASSIGNS its result voxel by voxel (out[z][y][x] = ..., as compute_gradient does - the documented contract
    is that the whole output is overwritten) must do so in every iteration of its voxel loops: no path through the body of an
    enclosing loop may skip the store (a `continue`, a conditional store).  Functions that accumulate (+=) may skip summands that are
    zero; an assigning one leaves whatever the caller's image contained (seed C09-5).  Not required when the output is filled
    unconditionally before the loops."""
    RULE = "C09.g-assigned-output-covers-every-voxel"
    n = 0
    for f in fns:
        if f.cls != "stir::" + cls and not (f.cls or "").endswith(cls):
            continue
        if f.short not in ("compute_gradient", "parabolic_surrogate_curvature", "compute_Hessian"):
            continue  # the interface whose result is defined for every voxel; private helpers may rely on outputs their callers zeroed
        outs = [p for p in f.params if "&" in (p.get("t") or "") and not (p.get("t") or "").lstrip().startswith("const") and re.search(r"DiscretisedDensity<|Array<", p.get("t") or "")]
        if not outs or not f.cfg_raw:
            continue
        defs = LocalDefs(f)
        alias = {}
        for d, vd in defs.decl.items():
            if (vd.get("t") or "").rstrip().endswith("&") and vd.c:
                ps = {m.get("d") for m in vd.c[0].walk() if m.k == "DeclRefExpr" and m.get("dk") == "param"}
                for o in outs:
                    if o["d"] in ps:
                        alias[d] = o["d"]
        cfg = None
        for o in outs:
            ok_roots = {o["d"]} | {d for d, t in alias.items() if t == o["d"]}

            def is_store(m):
                if not (m.k in ("BinaryOperator", "CXXOperatorCallExpr") and m.op == "=" and len(m.c) >= 2):
                    return False
                r, idx = _chain(m.c[0])
                return bool(idx) and r.k == "DeclRefExpr" and r.get("d") in ok_roots

            stores = [m for m in f.walk() if is_store(m)]
            if not stores:
                continue
            if cfg is None:
                cfg = CFG(f)
            # an unconditional fill of the output before the loops makes skipped voxels well defined (zero)
            fills = [c for c in f.calls() if (c.callee or "").split("::")[-1] == "fill" and c.call_object() is not None and c.call_object().strip().k == "DeclRefExpr" and c.call_object().strip().get("d") in ok_roots and c.i in cfg.pos]
            nests = {}
            for st in stores:
                loops = [a for a in st.ancestors() if a.k == "ForStmt"]
                if loops:
                    nests.setdefault(loops[-1].i, (loops, []))[1].append(st)
            for _outer, (loops, sts) in sorted(nests.items()):
                # innermost loop common to the stores of this nest
                loops = [l for l in loops if all(l.i in {a.i for a in s_.ancestors()} for s_ in sts)]
                if not loops:
                    continue
                if any(all(cfg.dominates(fl, s_) for s_ in sts) for fl in fills):
                    continue
                chain = list(reversed(loops))  # outermost first
                bad = None
                shape = True
                for i, L in enumerate(chain):
                    if len(L.c) != 4 or L.c[1] is None or L.c[2] is None:
                        shape = False
                        break
                    cond, inc = L.c[1].strip(), L.c[2].strip()
                    cpos = cfg.pos.get(cond.i) or cfg.pos.get(L.c[1].i)
                    if cpos is None or (inc.i not in cfg.pos and L.c[2].i not in cfg.pos):
                        shape = False
                        break
                    inc_ids = {inc.i, L.c[2].i}
                    if i + 1 < len(chain):
                        nxt = chain[i + 1]
                        if len(nxt.c) != 4 or nxt.c[1] is None:
                            shape = False
                            break
                        stop_ids = {nxt.c[1].i, nxt.c[1].strip().i}
                        w = cfg.paths_avoiding([cpos], lambda x, s_=stop_ids: x.i in s_, target_pred=lambda x, t=inc_ids: x.i in t, to_exit=False)
                    else:
                        w = cfg.paths_avoiding([cpos], is_store, target_pred=lambda x, t=inc_ids: x.i in t, to_exit=False)
                    if w is not None:
                        bad = L
                        break
                if not shape:
                    ctx.unrec(f.qn, "C09.g: loop around the stores to `%s` at line %d is not a for(init; cond; inc) loop found in the CFG" % (o.get("n"), sts[0].line))
                    continue
                v = key(chain[-1].c[1].strip().c[0].strip(), True) if chain[-1].c[1].strip().c else "?"
                ctx.ob(RULE, f.qn.split("<")[0] + "/%d" % len(f.params), "%s@loop-over-%s" % (o.get("n"), v), bad is None, sts[0].where(), ("every iteration of the %d enclosing loop(s) assigns `%s[..]` (line %s)" % (len(chain), o.get("n"), sorted({s_.line for s_ in sts}))) if bad is None else ("`%s` is assigned element by element (line %d) but an iteration of the loop at line %d can end without the assignment: those elements keep what the caller's image contained, although the function's result is defined for every voxel (gradient = derivative of the value there, zero for a uniform image)" % (o.get("n"), sts[0].line, bad.line)))
                n += 1
    return n


# ------------------------------------------------------------------------------------------------ h, i, j (PLSPrior and the family)
PLS_SRC = D + "PLSPrior.cxx"


def pls_request():
    return Request(PLS_SRC, fn=["stir::PLSPrior::.*"], rec=["stir::PLSPrior"], files=["/repo/" + re.escape(PLS_SRC), "/repo/src/include/stir/recon_buildblock/PLSPrior\\.h"])


def rule_h_pls_kappa_travels_with_the_flux(ctx, fns):
    """PLS: value = sum_j kappa_j * penalty_j, and penalty_j depends on image[j] and image[j+e_d].  So d value / d image[k] contains
    kappa at k AND at the neighbours k-e_d: in compute_gradient the kappa factor must reach the stored gradient through an element
    that is read at a SHIFTED subscript (the flux kappa_j*(...)/penalty_j, differenced), not only as a factor at the voxel itself
    (kappa outside the divergence is right for a uniform kappa only - F64)."""
    RULE = "C09.h-pls-kappa-inside-the-divergence"
    cg = [f for f in fns if f.short == "compute_gradient" and len(f.params) == 2 and f.body is not None]
    if not cg:
        ctx.fail_broken("C09.h: PLSPrior::compute_gradient not found")
        return 0
    f = cg[0]
    defs = LocalDefs(f)
    out = "v%d" % f.params[0]["d"]

    def base_key(n):
        r, idx = _chain(n)
        return key(r), idx

    # element stores: array key -> [(store node, rhs)]
    stores = {}
    for m in f.walk():
        if m.k in ("BinaryOperator", "CXXOperatorCallExpr", "CompoundAssignOperator") and (m.op or "") in ("=", "*=", "+=", "-=", "/=") and len(m.c) >= 2:
            bk, idx = base_key(m.c[0])
            if len(idx) == 3:
                stores.setdefault(bk, []).append((m, m.c[1]))

    def reads(e):
        """(array key, shifted?) of every 3-subscript element read in e, following scalar locals"""
        res = []
        seen = set()
        todo = [e]
        while todo:
            x = todo.pop()
            for m in x.walk():
                if m.k in ("CXXOperatorCallExpr", "ArraySubscriptExpr") and (m.k == "ArraySubscriptExpr" or m.op == "[]"):
                    bk, idx = base_key(m)
                    if len(idx) == 3 and (m.parent is None or not (m.parent.k in ("CXXOperatorCallExpr", "ArraySubscriptExpr") and m.parent.c and m.parent.c[0].strip() is m)):
                        res.append((bk, any(re.search(r"\((\+|-) ", key(i)) for i in idx)))
                if m.k == "DeclRefExpr" and m.get("dk") == "local" and m.get("d") not in seen:
                    seen.add(m.get("d"))
                    todo.extend(defs.all_defs(m.get("d")))
        return res

    # does kappa reach `out` through a shifted read?  propagate "carries kappa" over arrays
    carries = {}  # array key -> True if an element store of it depends on kappa
    changed = True
    while changed:
        changed = False
        for bk, lst in stores.items():
            if carries.get(bk):
                continue
            for _m, rhs in lst:
                rd = reads(rhs)
                if any("kappa_ptr" in k_ for k_, _s in rd) or any(carries.get(k_) for k_, _s in rd):
                    carries[bk] = True
                    changed = True
                    break
    shifted = False
    direct_only = False
    for _m, rhs in stores.get(out, []):
        for k_, sh in reads(rhs):
            if (carries.get(k_) or "kappa_ptr" in k_) and sh:
                shifted = True
    # the intermediate arrays: a kappa-carrying array read shifted anywhere on the way to the output
    for bk, lst in stores.items():
        if bk == out or not any(k_ == bk for _m2, r2 in stores.get(out, []) for k_, _s in reads(r2)) and not carries.get(bk):
            continue
        for _m, rhs in lst:
            for k_, sh in reads(rhs):
                if (carries.get(k_) or "kappa_ptr" in k_) and sh:
                    shifted = True
    uses_kappa = bool(carries.get(out)) or any("kappa_ptr" in k_ for _m, r in stores.get(out, []) for k_, _s in reads(r))
    if not uses_kappa:
        ctx.unrec(f.qn, "C09.h: no kappa factor reaches the stored gradient")
        return 0
    ctx.ob(RULE, f.qn.split("<")[0], "kappa@shifted-subscript", shifted, f.where(), "the kappa factor reaches the stored gradient through elements read at shifted subscripts (the flux of the neighbours carries their kappa)" if shifted else "kappa multiplies the gradient at the voxel itself only: the value is sum_j kappa_j*penalty_j, whose derivative with respect to voxel k contains kappa of the neighbours k-e_d as well; for a spatially varying kappa the gradient is not the derivative of the value")
    return 1


def rule_i_convex_priors_have_hessians(ctx, records, fns_by_cls):
    """A prior whose is_convex() can return true takes part in the Hessian clauses of C09: it must declare compute_Hessian and
    accumulate_Hessian_times_input itself (GeneralisedPrior's defaults only report an error)."""
    RULE = "C09.i-convex-prior-implements-its-hessian"
    n = 0
    seen = set()
    for r in records:
        cls = r.get("qn")
        if cls in seen or r.get("template") and any(x.get("qn") == cls and not x.get("template") for x in records):
            continue
        seen.add(cls)
        meths = {m.get("n") for m in r.get("methods", [])}
        if "is_convex" not in meths:
            continue
        conv = [f for f in fns_by_cls.get(cls, []) if f.short == "is_convex" and f.body is not None]
        if not conv:
            ctx.unrec(cls, "C09.i: body of is_convex() not found")
            continue
        rets = [m for m in conv[0].walk() if m.k == "ReturnStmt" and m.c]
        can_be_true = any(key(m.c[0].strip()) != "false" for m in rets)
        if not can_be_true:
            continue
        for need in ("compute_Hessian", "accumulate_Hessian_times_input"):
            ok = need in meths
            ctx.ob(RULE, cls, need, ok, "%s:%s" % (r.get("file"), r.get("line")), "declares %s" % need if ok else "is_convex() returns true but the class does not declare %s: the inherited default reports an error, so `Hessian row = Hessian applied to a unit image`, symmetry and positive semi-definiteness cannot be had for this prior" % need)
            n += 1
    return n


def rule_j_pls_neighbours_inside(ctx, fns):
    """PLS works with forward/backward differences: every subscript c+1 / c-1 (c a loop variable) is evaluated only where a test of
    c+1 against the loop's upper bound / c-1 against its first value has succeeded - border voxels interact only with neighbours
    inside the image."""
    from engine.cfg import relations

    RULE = "C09.j-pls-neighbours-inside-image"
    n = 0
    seen = set()
    for f in fns:
        if f.body is None or not f.cfg_raw or (f.file, f.body.line) in seen:
            continue
        seen.add((f.file, f.body.line))
        cfg = None
        loops = {}
        for lp in f.walk():
            if lp.k == "ForStmt":
                d = describe(lp, names=False)
                if d:
                    loops[d["d"]] = d
        k_ = 0
        for m in f.walk():
            if not (m.k in ("CXXOperatorCallExpr", "ArraySubscriptExpr") and (m.k == "ArraySubscriptExpr" or m.op == "[]") and len(m.c) == 2):
                continue
            ik = key(m.c[1].strip())
            mm = re.fullmatch(r"\((\+|-) v(\d+) 1\)", ik)
            if not mm or int(mm.group(2)) not in loops:
                continue
            d = loops[int(mm.group(2))]
            if cfg is None:
                cfg = CFG(f)
            at = m
            while at is not None and at.i not in cfg.pos:
                at = at.parent
            rels = relations(cfg.facts_at(at)) if at is not None else set()
            v = "v" + mm.group(2)
            if mm.group(1) == "+":
                up = d.get("upper")
                ok = (ik, "<=", up) in rels or (v, "<", up) in rels
                want = "%s <= %s" % (key(m.c[1].strip(), True), "the loop's upper bound")
            else:
                lo = d.get("init")
                ok = (ik, ">=", lo) in rels or (v, ">", lo) in rels
                want = "%s >= %s" % (key(m.c[1].strip(), True), "the loop's first value")
            ctx.ob(RULE, f.qn.split("<")[0] + "/%d" % len(f.params), "subscript#%d:%s" % (k_, key(m.c[1].strip(), True)), ok, m.where(), "evaluated only where %s is known" % want if ok else "subscript %s is evaluated without a successful test %s on every path: a border voxel reads (or writes) an element outside the image" % (key(m.c[1].strip(), True), want))
            k_ += 1
            n += 1
    return n


def run(ctx):
    ctx.explanation = (
        "For QuadraticPrior, RelativeDifferencePrior and LogcoshPrior, decides: (a) in every neighbourhood loop the offset d along an axis "
        "runs from max(w_min, c_min - c) to min(w_max, c_max - c) with c_min/c_max the index range of the image at that nesting level, so "
        "every [c + d] subscript stays inside the image (border voxels interact only with neighbours inside); (b) every summand is "
        "proportional to weights[dz][dy][dx], multiplied under do_kappa by the product of both voxels' kappa, and the result is "
        "multiplied exactly once by penalisation_factor (linear scaling); (c) by closed-form algebra (sympy) for both signs of x-y and "
        "symbolic positive parameters: the gradient summand is d/dx of the value's two visits of the voxel pair including the scale "
        "factors, it vanishes for equal voxels, derivative_20/derivative_11 are its partial derivatives, derivative_11 is symmetric; (g) "
        "interface functions that assign their result voxel by voxel do so in every loop iteration; (i) every prior that can declare itself "
        "convex declares both Hessian functions (PLSPrior: known finding F65); for PLSPrior (h) kappa travels with the flux and (j) every "
        "c+1/c-1 subscript is guarded by the matching bound test. NOT decided: the PLS formulas, positive semi-definiteness, floating-point "
        "agreement with finite differences, the degenerate epsilon == 0 branches."
    )
    ctx.assumptions += ["arrays are regular (the y/x ranges are taken from the current row, as the code itself assumes)", "neighbourhood weights are symmetric (w[-d] = w[d]); logcosh(d) = log(cosh(d))"]
    reqs = requests()
    ctx.ex.prefetch(reqs + [pls_request()])
    for (cls, _src), r in zip(PRIORS, reqs):
        u = ctx.ex.get(r)
        if u is None:
            continue
        fns = insts(u)
        rule_a(ctx, cls, fns)
        rule_bc(ctx, cls, fns)
        rule_d_hessian_times_input(ctx, cls, fns)
        rule_e_one_neighbourhood(ctx, cls, fns)
        rule_g_assigned_output_complete(ctx, cls, fns)
    u = ctx.ex.get(pls_request())
    if u is not None:
        pls = insts(u)
        rule_h_pls_kappa_travels_with_the_flux(ctx, pls)
        rule_j_pls_neighbours_inside(ctx, pls)
        rule_g_assigned_output_complete(ctx, "PLSPrior", pls)
        by_cls = {}
        recs = []
        for (cls, _src), r in zip(PRIORS, reqs):
            uu = ctx.ex.get(r)
            if uu is not None:
                by_cls["stir::" + cls] = insts(uu)
                recs += [x for x in uu.records if x.get("qn") == "stir::" + cls]
        by_cls["stir::PLSPrior"] = pls
        recs += [x for x in u.records if x.get("qn") == "stir::PLSPrior"]
        rule_i_convex_priors_have_hessians(ctx, recs, by_cls)
        ctx.require_count("C09.h-pls-kappa-inside-the-divergence", 1)
        ctx.require_count("C09.i-convex-prior-implements-its-hessian", 8)
        ctx.require_count("C09.j-pls-neighbours-inside-image", 6)
    ctx.require_count("C09.a-neighbours-inside-image", 30)
    ctx.require_count("C09.b-weights-kappa-penalisation", 15)
    ctx.require_count("C09.c-calculus", 10)
    ctx.require_count("C09.d-hessian-times-input", 4)
    ctx.require_count("C09.e-one-neighbourhood", 9)
