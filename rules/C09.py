"""C09 - priors (QuadraticPrior, RelativeDifferencePrior, LogcoshPrior).  Decided clauses:

 a  RF1  neighbours stay inside the image: every subscript [c + dc] uses an offset dc that loops from
         max(w_min, c_min - c) to min(w_max, c_max - c) for the same axis c
 b  RF7  every neighbourhood summand carries weights[dz][dy][dx], is multiplied under do_kappa by
         kappa[z][y][x]*kappa[z+dz][y+dy][x+dx], and the result is multiplied exactly once by penalisation_factor
 c  RF11 calculus of the potential (closed-form algebra, both signs of x-y):
         gradient summand  = d/dx [phi(x,y) + phi(y,x)]  (each unordered pair is visited twice), with the scale factors of
         compute_value / compute_gradient taken into account;  derivative_20 = d(gradient summand)/dx / w,
         derivative_11 = d(gradient summand)/dy / w;  derivative_11 is symmetric;  gradient summand vanishes for x == y
"""
import re

import sympy

from engine.algebra import Algebra, LocalDefs
from engine.cfg import CFG
from engine.extract import Request
from engine.loops import describe
from engine.tree import key

D = "src/recon_buildblock/"
PRIORS = [("QuadraticPrior", D + "QuadraticPrior.cxx"), ("RelativeDifferencePrior", D + "RelativeDifferencePrior.cxx"), ("LogcoshPrior", D + "LogcoshPrior.cxx")]
AXES = (("z", "dz", 0), ("y", "dy", 1), ("x", "dx", 2))


def requests():
    return [Request(src, fn=["stir::%s::.*" % cls], files=["/repo/" + re.escape(src), "/repo/src/include/stir/recon_buildblock/%s\\.h" % cls]) for cls, src in PRIORS]


def insts(u):
    by = {}
    for f in u.functions:
        by.setdefault((f.file, f.body.line if f.body is not None else f.line, f.qn, len(f.params)), []).append(f)
    out = []
    for _k, fs in sorted(by.items()):
        i = [f for f in fs if not f.is_dependent]
        out.append((i or fs)[0])
    return [f for f in out if f.body is not None]


# ------------------------------------------------------------------------------------------------ a
def rule_a(ctx, cls, fns):
    n = 0
    for f in fns:
        subs = [m for m in f.walk() if m.k == "CXXOperatorCallExpr" and m.op == "[]" and len(m.c) == 2 and m.c[1].strip().k == "BinaryOperator" and m.c[1].strip().op == "+"]
        if not subs:
            continue
        defs = LocalDefs(f)
        seen = set()
        for s in subs:
            idx = s.c[1].strip()
            a, b = idx.c[0].strip(), idx.c[1].strip()
            if a.k != "DeclRefExpr" or b.k != "DeclRefExpr":
                continue
            cname, dname = a.get("n"), b.get("n")
            if (cname, dname) in seen:
                continue
            seen.add((cname, dname))
            # dc must be the variable of an enclosing counting loop
            lp = None
            for anc in s.ancestors():
                if anc.k == "ForStmt":
                    d = describe(anc)
                    if d and d["d"] == b.get("d"):
                        lp = d
                        break
            ok = False
            det = "%s is not the variable of an enclosing counting loop" % dname
            if lp is not None and lp["step"] == "1":
                sub = {d: defs.single_def(d) for d in defs.decl}
                ckey = key(a, True, sub)
                lo = _resolve(f, defs, lp["node"].c[0], "init")
                hi = _resolve_upper(f, defs, lp["node"].c[1])
                # lo = max(W.get_min_index(), cmin - c) ; hi = min(W.get_max_index(), cmax - c)
                mlo = re.fullmatch(r"std::max\((.*)\.get_min_index\(\),\(- (.*) %s\)\)" % re.escape(ckey), lo or "")
                mhi = re.fullmatch(r"std::min\((.*)\.get_max_index\(\),\(- (.*) %s\)\)" % re.escape(ckey), hi or "")
                if mlo and mhi:
                    cmin, cmax = mlo.group(2), mhi.group(2)
                    # cmin/cmax are the index range of the image at this nesting level
                    okmin = re.fullmatch(r"(.+)\.get_min_index\(\)", cmin) is not None
                    okmax = re.fullmatch(r"(.+)\.get_max_index\(\)", cmax) is not None
                    same = okmin and okmax and cmin[: -len(".get_min_index()")] == cmax[: -len(".get_max_index()")]
                    level = _toplevel_subscripts(cmin[: -len(".get_min_index()")]) if okmin else -1
                    want_level = {"z": 0, "y": 1, "x": 2}.get(cname, -1)
                    wlevel = _toplevel_subscripts(mlo.group(1))
                    ok = bool(same) and level == want_level and mlo.group(1) == mhi.group(1) and wlevel == want_level
                    det = "%s in [max(w_min, %s - %s), min(w_max, %s - %s)]" % (dname, cmin[-40:], cname, cmax[-40:], cname)
                    if not ok:
                        det = "bounds of %s along %s use weights extent %s / %s and image range %s / %s: not the extents of axis %s" % (dname, cname, mlo.group(1)[-30:], mhi.group(1)[-30:], cmin[-40:], cmax[-40:], cname)
                else:
                    det = "bounds of %s are %s .. %s, not max(w_min, c_min - %s) .. min(w_max, c_max - %s)" % (dname, lo, hi, cname, cname)
            ctx.ob("C09.a-neighbours-inside-image", f.qn + "/" + str(len(f.params)), "%s+%s" % (cname, dname), ok, s.where(), det)
            n += 1
    return n


def _toplevel_subscripts(s):
    depth, n = 0, 0
    for ch in s:
        if ch == "[":
            if depth == 0:
                n += 1
            depth += 1
        elif ch == "]":
            depth -= 1
    return n


def _resolve(f, defs, init_node, what):
    vd = [m for m in init_node.walk() if m.k == "VarDecl" and m.c]
    if not vd:
        return None
    sub = {d: defs.single_def(d) for d in defs.decl}
    return key(vd[0].c[0].strip(), True, sub)


def _resolve_upper(f, defs, cond):
    c = cond.strip()
    if c.k == "BinaryOperator" and c.op == "<=":
        sub = {d: defs.single_def(d) for d in defs.decl}
        return key(c.c[1].strip(), True, sub)
    return None


# ------------------------------------------------------------------------------------------------ b / c
def summand(ctx, f, acc_names, helpers, sgn):
    """(sympy expression of the neighbourhood summand before kappa, kappa factor ok?, scale factor of the stored/returned result)"""
    cfg = CFG(f)
    # the accumulation statement  acc += current   (or output[z][y][x] += ...)
    accs = [m for m in f.walk() if m.k in ("CompoundAssignOperator",) and m.op == "+=" and key(m.c[0], True) in acc_names and key(m.c[1].strip(), True) == "current"]
    if len(accs) != 1:
        return None
    acc = accs[0]
    cur_decl = [m for m in f.walk() if m.k == "VarDecl" and m.get("n") == "current"]
    if not cur_decl:
        return None

    def subs_name(n):
        k = key(n, True)
        m = re.fullmatch(r"(\*?[\w.]+)\[(z|\(\+ z dz\))\]\[(y|\(\+ y dy\))\]\[(x|\(\+ x dx\))\]", k)
        if m:
            shifted = "+" in k
            base = m.group(1)
            if "kappa" in base:
                return "K_nb" if shifted else "K_c"
            return "X_nb" if shifted else "X_c"
        if re.fullmatch(r"this\.weights\[dz\]\[dy\]\[dx\]", k):
            return "w"
        return None

    alg = Algebra(f, names=True, inline=True)
    alg.helpers = helpers
    alg.abs_sign = sgn
    alg.subscript_symbols = subs_name
    # value of `current` before the kappa multiplication: its initialiser, or its last plain assignment (RDP value has an if/else)
    inits = []
    for cd in cur_decl:
        if cd.c:
            inits.append(cd.c[0])
    assigns = [m for m in f.walk() if m.k == "BinaryOperator" and m.op == "=" and key(m.c[0], True) == "current"]
    exprs = [alg.expr(e) for e in inits] + [alg.expr(m.c[1]) for m in assigns]
    exprs = [e for e in exprs if e.free_symbols]
    if not exprs:
        return None
    E = exprs[-1] if len(exprs) > 1 else exprs[0]
    # kappa: current *= K_c * K_nb under do_kappa
    kap = [m for m in f.walk() if m.k == "CompoundAssignOperator" and m.op == "*=" and key(m.c[0], True) == "current"]
    kap_ok = False
    for m in kap:
        e = sympy.expand(alg.expr(m.c[1]))
        guard = [a for a in m.ancestors() if a.k == "IfStmt"]
        if e == alg.sym("K_c") * alg.sym("K_nb") and guard and key(guard[0].c[0], True) == "do_kappa":
            kap_ok = True
    return {"E": E, "kappa_ok": kap_ok, "alg": alg, "acc": acc}


def scale_of(f, alg_syms, accname):
    """multiplier applied to the accumulated sum: `return acc * pf [/ 2]`  or  `out[z][y][x] = acc * pf`"""
    alg = Algebra(f, names=True, inline=False)
    cands = []
    for m in f.walk():
        if m.k == "ReturnStmt" and m.c and accname in key(m.c[0], True):
            cands.append(m.c[0])
        if m.k in ("BinaryOperator", "CXXOperatorCallExpr") and m.op == "=" and len(m.c) == 2 and accname in key(m.c[1], True) and "[z][y][x]" in key(m.c[0], True):
            cands.append(m.c[1])
    if len(cands) != 1:
        return None
    e = sympy.expand(alg.expr(cands[0]))
    a = alg.sym(accname)
    c = sympy.expand(sympy.diff(e, a))
    if sympy.expand(e - c * a) != 0:
        return None
    return c


def rule_bc(ctx, cls, fns):
    byname = {}
    for f in fns:
        byname.setdefault(f.short, []).append(f)
    helpers = {}
    for h in ("value", "derivative_10", "derivative_20", "derivative_11"):
        for f in byname.get(h, []):
            if len(f.params) == 2:
                helpers[f.qn] = f
    sgn = sympy.Symbol("sgn", real=True)
    cv = [f for f in byname.get("compute_value", []) if len(f.params) == 1]
    cg = [f for f in byname.get("compute_gradient", []) if len(f.params) == 2]
    if not cv or not cg:
        ctx.fail_broken("%s: compute_value / compute_gradient not found" % cls)
        return
    V = summand(ctx, cv[0], ("result",), helpers, sgn)
    G = summand(ctx, cg[0], ("gradient",), helpers, sgn)
    if V is None or G is None:
        ctx.unrec("stir::%s" % cls, "neighbourhood summand `current` / accumulation not recognised in compute_value or compute_gradient")
        return
    # logcosh helper: log(cosh(.)) (even function; the class's own large-argument approximation is a numerical device)
    lc = sympy.Function("logcosh")
    sv = scale_of(cv[0], None, "result")
    sg = scale_of(cg[0], None, "gradient")
    pfs = [s for s in (sv.free_symbols if sv is not None else set()) if "penalisation_factor" in s.name]
    for what, sc, f in (("value", sv, cv[0]), ("gradient", sg, cg[0])):
        ok = sc is not None and len([s for s in sc.free_symbols if "penalisation_factor" in s.name]) == 1 and sympy.degree(sc, [s for s in sc.free_symbols if "penalisation_factor" in s.name][0]) == 1
        ctx.ob("C09.b-weights-kappa-penalisation", "stir::%s::compute_%s" % (cls, what), "penalisation-factor-once", ok, f.where(), "result = sum * (%s)" % sc if ok else "the accumulated sum is not multiplied exactly once by penalisation_factor (%s)" % sc)
    for what, S, f in (("value", V, cv[0]), ("gradient", G, cg[0])):
        w = S["alg"].sym("w")
        E = S["E"]
        lin = sympy.simplify(sympy.diff(E, w, 2)) == 0 and sympy.simplify(E.subs(w, 0)) == 0
        ctx.ob("C09.b-weights-kappa-penalisation", "stir::%s::compute_%s" % (cls, what), "summand-carries-weight", lin, f.where(), "summand is weights[dz][dy][dx] times a function of the two voxel values" if lin else "summand is not proportional to weights[dz][dy][dx]")
        ctx.ob("C09.b-weights-kappa-penalisation", "stir::%s::compute_%s" % (cls, what), "kappa-product", S["kappa_ok"], f.where(), "under do_kappa the summand is multiplied by kappa[z][y][x]*kappa[z+dz][y+dy][x+dx]" if S["kappa_ok"] else "kappa factor missing or not the product of both voxels' kappa")
    if sv is None or sg is None:
        return
    x, y = sympy.symbols("x y", real=True)

    def in_xy(S):
        a = S["alg"]
        e = S["E"].subs({a.sym("X_c"): x, a.sym("X_nb"): y})
        # user-level function symbols for calls that were not inlined (logcosh)
        for s in list(e.free_symbols):
            m = re.fullmatch(r".*logcosh\((.*)\)", s.name)
            if m:
                pass
        return e

    phi = in_xy(V)
    g = in_xy(G)
    # replace an opaque logcosh(...) symbol by log(cosh(argument)) - the argument is recovered from the call node
    phi = _logcosh_to_closed_form(V, phi, x, y)
    pf_v = [s for s in sv.free_symbols if "penalisation_factor" in s.name][0]
    pf_g = [s for s in sg.free_symbols if "penalisation_factor" in s.name][0]
    cvn = sympy.simplify(sv / pf_v)
    cgn = sympy.simplify(sg / pf_g)
    okall = True
    dets = []
    for sval in (1, -1):
        ph = phi.subs(sgn, sval)
        gg = g.subs(sgn, sval)
        ph_sw = phi.subs(sgn, -sval).subs({x: y, y: x}, simultaneous=True)  # phi(y,x): the sign of (y-x) is the opposite
        lhs = cvn * (sympy.diff(ph, x) + sympy.diff(ph_sw, x))
        d = sympy.simplify(lhs - cgn * gg)
        if d != 0:
            okall = False
            dets.append("sign(x-y)=%+d: d/dx[phi(x,y)+phi(y,x)]*%s - gradient summand*%s = %s" % (sval, cvn, cgn, str(d)[:120]))
    ctx.ob("C09.c-calculus", "stir::%s" % cls, "gradient=d(value)", okall, cg[0].where(), "gradient summand equals d/dx of the value's two visits of the pair, for both signs of x-y (scale factors %s, %s)" % (cvn, cgn) if okall else "; ".join(dets))
    # gradient vanishes for uniform images
    z0 = all(sympy.simplify(g.subs(sgn, s).subs(y, x)) == 0 for s in (1, -1))
    ctx.ob("C09.c-calculus", "stir::%s" % cls, "gradient-zero-for-equal-voxels", z0, cg[0].where(), "summand vanishes for x == y" if z0 else "gradient summand does not vanish for x == y")
    # second derivatives
    w = G["alg"].sym("w")
    for name, var in (("derivative_20", x), ("derivative_11", y)):
        hs = [h for q, h in helpers.items() if q.endswith("::" + name)]
        if not hs:
            ctx.ob("C09.c-calculus", "stir::%s" % cls, name, False, cg[0].where(), "%s not found" % name)
            continue
        h = hs[0]
        ok = True
        det = []
        for sval in (1, -1):
            a = Algebra(h, names=True)
            a.helpers = helpers
            a.abs_sign = sympy.Integer(sval)
            a.bind = {h.params[0]["d"]: x, h.params[1]["d"]: y}
            rets = [r for r in h.walk() if r.k == "ReturnStmt" and r.c]
            es = [a.expr(r.c[0]) for r in rets]
            es = [e for e in es if not e.has(sympy.oo) and (e.free_symbols or len(rets) == 1) and "INFINITY" not in str(e)]
            if not es:
                ok = False
                det.append("no closed-form return")
                continue
            e = es[0]
            want = sympy.diff(g.subs(sgn, sval), var) / w
            d = sympy.simplify(e - want)
            if d != 0:
                ok = False
                det.append("sign(x-y)=%+d: %s(x,y) - d(gradient summand)/d%s / w = %s" % (sval, name, var, str(d)[:120]))
            if name == "derivative_11":
                sw = e.subs({x: y, y: x}, simultaneous=True)
                # exchanging x and y flips the sign of x-y
                a2 = Algebra(h, names=True)
                a2.helpers = helpers
                a2.abs_sign = sympy.Integer(-sval)
                a2.bind = {h.params[0]["d"]: y, h.params[1]["d"]: x}
                es2 = [a2.expr(r.c[0]) for r in rets]
                es2 = [q for q in es2 if "INFINITY" not in str(q) and (q.free_symbols or len(rets) == 1)]
                if es2 and sympy.simplify(es2[0] - e) != 0:
                    ok = False
                    det.append("derivative_11(x,y) != derivative_11(y,x)")
        ctx.ob("C09.c-calculus", "stir::%s" % cls, name, ok, h.where(), "%s equals the corresponding partial derivative of the gradient summand%s" % (name, " and is symmetric" if name == "derivative_11" else "") if ok else "; ".join(det))


def _logcosh_to_closed_form(S, e, x, y):
    # find a call to logcosh in the summand and turn the opaque symbol into log(cosh(arg))
    for s in list(e.free_symbols):
        if "logcosh(" in s.name:
            f = S["alg"].fn
            calls = [c for c in f.walk() if c.is_call() and (c.callee or "").endswith("::logcosh")]
            if calls:
                a = S["alg"]
                arg = a.expr(calls[0].call_args()[0]).subs({a.sym("X_c"): x, a.sym("X_nb"): y})
                e = e.subs(s, sympy.log(sympy.cosh(arg)))
    return e


def run(ctx):
    ctx.explanation = (
        "For QuadraticPrior, RelativeDifferencePrior and LogcoshPrior, decides: (a) in every neighbourhood loop the offset d along an axis "
        "runs from max(w_min, c_min - c) to min(w_max, c_max - c) with c_min/c_max the index range of the image at that nesting level, so "
        "every [c + d] subscript stays inside the image (border voxels interact only with neighbours inside); (b) every summand is "
        "proportional to weights[dz][dy][dx], multiplied under do_kappa by the product of both voxels' kappa, and the result is "
        "multiplied exactly once by penalisation_factor (linear scaling); (c) by closed-form algebra (sympy) for both signs of x-y and "
        "symbolic positive parameters: the gradient summand is d/dx of the value's two visits of the voxel pair including the scale "
        "factors, it vanishes for equal voxels, derivative_20/derivative_11 are its partial derivatives, derivative_11 is symmetric. NOT "
        "decided: PLSPrior, positive semi-definiteness, floating-point agreement with finite differences, the degenerate "
        "epsilon == 0 branches."
    )
    ctx.assumptions += ["arrays are regular (the y/x ranges are taken from the current row, as the code itself assumes)", "neighbourhood weights are symmetric (w[-d] = w[d]); logcosh(d) = log(cosh(d))"]
    reqs = requests()
    ctx.ex.prefetch(reqs)
    for (cls, _src), r in zip(PRIORS, reqs):
        u = ctx.ex.get(r)
        if u is None:
            continue
        fns = insts(u)
        rule_a(ctx, cls, fns)
        rule_bc(ctx, cls, fns)
    ctx.require_count("C09.a-neighbours-inside-image", 30)
    ctx.require_count("C09.b-weights-kappa-penalisation", 15)
    ctx.require_count("C09.c-calculus", 10)
