"""C08 - OSSPS sub-iteration.  Decided clauses (structure of update_estimate):

 a  RF2  the iterate ends inside [0, upper bound]: a clamp of the whole current image with lower bound 0 and upper bound
         `upper_bound` follows every modification of the current image on every path
 b  RF2  every division is by a denominator that passed threshold_min_to_small_positive_value: the freshly built one in
         the branch taken in the first executed sub-iteration (or when the penalty curvature must be recomputed), the stored
         one otherwise; the stored one is written from the thresholded image
 c  RF11 update shape: numerator = sub-gradient * num_subsets / D * relaxation, with
         relaxation = relaxation_parameter / (1 + relaxation_gamma * ((subiteration_num - 1) / num_subsets)); then image += it
"""
import re

import sympy

from engine.algebra import Algebra
from engine.cfg import CFG
from engine.extract import Request
from engine.tree import key, root_of_lvalue, written_lvalues

SRC = "src/iterative/OSSPS/OSSPSReconstruction.cxx"


def requests():
    return [
        Request(SRC, fn=["stir::OSSPSReconstruction::update_estimate"]),
        Request(SRC, fn=["stir::OSSPSReconstruction::precompute_denominator_of_conditioner_without_penalty", "stir::OSSPSReconstruction::set_up"]),
        Request("src/recon_buildblock/QuadraticPrior.cxx", fn=["stir::QuadraticPrior::parabolic_surrogate_curvature.*"], files=["/repo/src/recon_buildblock/QuadraticPrior.cxx", "/repo/src/include/stir/recon_buildblock/QuadraticPrior.h"]),
        Request("src/recon_buildblock/LogcoshPrior.cxx", fn=["stir::LogcoshPrior::parabolic_surrogate_curvature.*"], files=["/repo/src/recon_buildblock/LogcoshPrior.cxx", "/repo/src/include/stir/recon_buildblock/LogcoshPrior.h"]),
    ]


def run(ctx):
    ctx.explanation = (
        "Decides the structure of OSSPSReconstruction::update_estimate: (a) every modification of the current image is followed on "
        "every path by threshold_upper_lower(image, 0, upper_bound) over the whole image, so iterates end in [0, upper bound]; (b) each "
        "division `_1 / _2` divides by the image that passed threshold_min_to_small_positive_value in this call, or by the stored "
        "denominator in the branch that excludes the first executed sub-iteration, and the stored denominator is copied from the "
        "thresholded image; (c) the additive update is subgradient*num_subsets/D*relaxation with relaxation = alpha/(1+gamma*(n div N)). "
        "(d) the denominator is assembled as defined: stored part = -(approximate Hessian applied to ones) accumulated into a fresh image, divisor = 2*surrogate curvature(current image) + stored part. NOT decided: the values of Hessian and curvature, restart equality (numerical / history)."
    )
    reqs = requests()
    ctx.ex.prefetch(reqs)
    u = ctx.ex.get(reqs[0])
    if u is None:
        return
    fs = [f for f in u.functions if f.body is not None and not f.is_dependent and f.cfg_raw]
    if not fs:
        ctx.fail_broken("anchor OSSPSReconstruction::update_estimate (instantiation) not found")
        return
    f = fs[0]
    cfg = CFG(f)
    img = "v%d" % f.params[0]["d"]
    # ---- a
    writes = [m for m in f.walk() if m.i in cfg.pos and any(root_of_lvalue(e) == img for e in written_lvalues(m)) and not (m.is_call() and (m.callee or "").endswith("threshold_upper_lower"))]
    writes = [m for m in writes if not (m.k == "CXXMemberCallExpr" and (m.callee or "").split("::")[-1] in ("begin_all", "end_all", "get_empty_copy"))]
    alg = Algebra(f, names=False)
    inl = {d: alg.defs.single_def(d) for d in alg.defs.decl}
    clamps = [c for c in f.calls() if (c.callee or "").endswith("threshold_upper_lower") and key(c.call_args()[0]) == img + ".begin_all()"]
    ok = False
    det = "no clamp of the current image"
    if clamps:
        c = clamps[-1]
        a = c.call_args()
        lo = alg.expr(a[2])
        hi_key = key(a[3], False, inl)
        whole = key(a[0]) == img + ".begin_all()" and key(a[1]) == img + ".end_all()"
        w = cfg.must_pass_before_exit(writes, lambda x: x.i == c.i)
        ok = whole and lo == 0 and "this.upper_bound" in hi_key and w is None
        det = "threshold_upper_lower(image.begin_all(), image.end_all(), %s, %s) follows all %d modifications of the image" % (lo, hi_key, len(writes)) if ok else "clamp: whole=%s lower=%s upper=%s, a modification can reach the exit without it=%s" % (whole, lo, hi_key, w is not None)
    hand = None
    if not clamps:
        # a clamp written by hand: in a loop over the image `if (*i < L) *i = L` and `if (*i > U) *i = U`, each reached whatever else
        # holds (nesting under the complementary test of the same element is fine, nesting under anything else is not)
        its = {d for d, v in alg.defs.decl.items() if v.c and any(x.is_call() and (x.callee or key(x, True)).split("::")[-1].split("(")[0].startswith("begin_all") and any(y.k == "DeclRefExpr" and "v%d" % y.get("d") == img for y in x.walk()) for x in v.c[0].walk())}
        elems = {"*v%d" % d for d in its}

        def elem_cmp(c):
            c = c.strip()
            if c.k in ("BinaryOperator", "CXXOperatorCallExpr") and c.op in ("<", "<=", ">", ">=") and len(c.c) >= 2:
                a, b = key(c.c[-2].strip()), key(c.c[-1].strip())
                if a in elems:
                    return ("lower" if c.op in ("<", "<=") else "upper", c.c[-1].strip())
                if b in elems:
                    return ("upper" if c.op in ("<", "<=") else "lower", c.c[-2].strip())
            return None

        found = {}
        conditional = []
        for m in f.walk():
            if m.k != "IfStmt":
                continue
            ec = elem_cmp(m.c[0])
            if ec is None:
                continue
            sets = [x for x in m.c[1].walk() if x.k in ("BinaryOperator", "CXXOperatorCallExpr") and x.op == "=" and key(x.c[-2].strip() if x.k == "CXXOperatorCallExpr" else x.c[0].strip()) in elems]
            if not sets:
                continue
            outer = []
            for a_ in m.ancestors():
                if a_.k in ("ForStmt", "WhileStmt", "CXXForRangeStmt"):
                    break
                if a_.k == "IfStmt" and elem_cmp(a_.c[0]) is None:
                    outer.append(a_)
            if outer:
                conditional.append((ec[0], outer[0]))
            else:
                found[ec[0]] = (ec[1], m)
        if found or conditional:
            hand = (found, conditional)
    if hand is not None:
        found, conditional = hand
        if conditional:
            ok = False
            det = "the %s bound is only applied when `%s` holds (%s): a voxel that is outside [0, upper bound] for another reason (start image, filter) stays outside" % (conditional[0][0], key(conditional[0][1].c[0], True), conditional[0][1].where())
        elif set(found) == {"lower", "upper"}:
            lo = alg.expr(found["lower"][0])
            hi_key = key(found["upper"][0], False, inl)
            last = max((m for _b, m in found.values()), key=lambda m: m.line)
            ok = lo == 0 and "this.upper_bound" in hi_key
            det = "every element is compared with 0 and with the upper bound after the update (hand-written clamp at %s)" % last.where() if ok else "hand-written clamp with lower=%s upper=%s" % (lo, hi_key)
        else:
            ok = False
            det = "only the %s bound is applied to the image elements" % sorted(found)[0]
    ctx.ob("C08.a-iterate-clamped", f.qn, "clamp-to-[0,upper_bound]", ok, f.where(), det)
    # ---- b   (objects are identified by what is done with them, never by their names)
    tr = [c for c in f.calls() if c.callee == "std::transform"]
    P1, P2 = alg.sym("boost::lambda::(anon)::_1"), alg.sym("boost::lambda::(anon)::_2")

    def lam(c):
        try:
            return sympy.simplify(alg.expr(c.call_args()[-1]))
        except Exception:
            return None

    def obj(n):
        """the image an iterator argument X->begin_all() ranges over"""
        k = key(n)
        return k[: -len(".begin_all()")] if k.endswith(".begin_all()") else k

    divs = [c for c in tr if lam(c) is not None and sympy.simplify(lam(c) - P1 / P2) == 0]
    thr = [c for c in f.calls() if (c.callee or "").endswith("threshold_min_to_small_positive_value")]
    STORED = "*this.precomputed_denominator_ptr"
    WORK = obj(thr[0].call_args()[0]) if thr else None
    store = [m for m in f.walk() if m.k in ("BinaryOperator", "CXXOperatorCallExpr") and m.op == "=" and key(m.c[0]) == STORED]
    n_ok = 0
    for i, d in enumerate(divs):
        divisor = obj(d.call_args()[2])
        if WORK is not None and divisor == WORK:
            ok = cfg.dominates(thr[0], d) and thr[0].i != d.i and obj(thr[0].call_args()[1]).replace(".end_all()", "") == WORK
            det = "divisor work image passed threshold_min_to_small_positive_value first" if ok else "division by an un-thresholded work image"
        elif divisor == STORED:
            facts = cfg.facts_at(d)
            not_first = any(tv is False and "get_subiteration_num()" in k and "get_start_subiteration_num()" in k and k.startswith("(== ") for k, tv, _r in facts)
            stored_from_thr = bool(store) and WORK is not None and key(store[0].c[1].strip()) == WORK and bool(thr) and cfg.dominates(thr[0], store[0])
            ok = not_first and stored_from_thr
            det = "stored denominator is used only after the first executed sub-iteration and was copied from the thresholded image" if ok else "stored denominator used in the first sub-iteration (%s) or not copied from the thresholded image (%s)" % (not not_first, not stored_from_thr)
        else:
            ok, det = False, "division by %s, which is neither the thresholded work image nor the stored denominator" % key(d.call_args()[2], True)
        ctx.ob("C08.b-positive-denominator", f.qn, "division@%d" % i, ok, d.where(), det)
        n_ok += 1
    # ---- c
    sub = [c for c in f.calls() if (c.callee or "").endswith("::compute_sub_gradient")]
    NUM = key(sub[0].call_args()[0]) if len(sub) == 1 else None
    numtr = [c for c in tr if NUM is not None and obj(c.call_args()[0]) == NUM and obj(c.call_args()[-2]) == NUM]
    Nn, al, ga, it = (alg.sym(x) for x in ("this.num_subsets", "this.relaxation_parameter", "this.relaxation_gamma", "this.subiteration_num"))
    # n = (subiteration_num - 1) / num_subsets is the 0-based FULL iteration number of the 1-based sub-iteration number: an INTEGER
    # quotient, the same for all sub-iterations of one full iteration.  (Until defect F36 was repaired this clause expected
    # subiteration_num / num_subsets, i.e. it had the off-by-one of the code written into it.)
    relax = al / (1 + ga * sympy.Function("intdiv")(it - 1, Nn))
    kinds = []
    relax_seen = None
    for c in numtr:
        e = lam(c)
        if e is None:
            kinds.append((c, "?"))
        elif sympy.simplify(e - P1 * Nn) == 0:
            kinds.append((c, "mul-N"))
        elif sympy.simplify(e - P1 / P2) == 0:
            kinds.append((c, "div-D"))
        elif sympy.simplify(sympy.diff(e, P1, 2)) == 0 and sympy.simplify(e.subs(P1, 0)) == 0 and not e.has(P2):
            kinds.append((c, "mul-relax"))
            relax_seen = sympy.simplify(e / P1)
        else:
            kinds.append((c, "other:%s" % e))
    ok = relax_seen is not None and sympy.simplify(relax_seen - relax) == 0
    # n = subiteration_num / num_subsets is the full-iteration number: an integer division (the algebra above is over the reals)
    itdiv = [m for m in f.walk() if m.k == "BinaryOperator" and m.op == "/" and key(m.c[0].strip(), False, inl) in ("(- this.subiteration_num 1)", "(+ this.subiteration_num -1)") and key(m.c[1].strip(), False, inl) == "this.num_subsets"]
    if ok and not (itdiv and all(m.type == "int" for m in itdiv)):
        ok = False
        relax_seen = "%s with a non-integer iteration number" % relax_seen
    ctx.ob("C08.c-update-shape", f.qn, "relaxation", ok, f.where(), "relaxation = %s" % str(relax_seen).replace("this.", ""))
    # order along any path: N-scaling, then division (either branch), then relaxation
    compact = [k for i, (_c, k) in enumerate(kinds) if i == 0 or kinds[i - 1][1] != k]
    ok = compact == ["mul-N", "div-D", "mul-relax"]
    add = [m for m in f.walk() if m.k in ("CompoundAssignOperator", "CXXOperatorCallExpr") and m.op == "+=" and key(m.c[0]) == img and NUM is not None and key(m.c[1].strip()) == NUM]
    if not add and NUM is not None:
        # the same addition written element by element: `*i += *u` with i running over the image and u over the numerator
        def runs_over(d, rootkey):
            v = alg.defs.decl.get(d)
            if v is None or not v.c:
                return False
            return any(x.is_call() and (x.callee or key(x, True)).split("::")[-1].split("(")[0].startswith("begin_all") and any(y.k == "DeclRefExpr" and "v%d" % y.get("d") == rootkey for y in x.walk()) for x in v.c[0].walk())

        numroot = NUM.lstrip("*")
        for m in f.walk():
            if m.k in ("CompoundAssignOperator", "CXXOperatorCallExpr") and m.op == "+=" and len(m.c) >= 2:
                l, r = m.c[-2].strip(), m.c[-1].strip()
                ld = [x.get("d") for x in l.walk() if x.k == "DeclRefExpr" and x.get("dk") == "local"]
                rd = [x.get("d") for x in r.walk() if x.k == "DeclRefExpr" and x.get("dk") == "local"]
                if len(ld) == 1 and len(rd) == 1 and key(l).startswith("*") and key(r).startswith("*") and runs_over(ld[0], img) and runs_over(rd[0], numroot):
                    add.append(m)
    divids = {c.i for c, k in kinds if k == "div-D"}
    straight = [c for c, k in kinds if k != "div-D"]
    ok = ok and len(add) == 1 and len(sub) == 1 and all(cfg.dominates(c, add[0]) for c in straight) and cfg.must_pass_from_entry(add, lambda x: x.i in divids) is None and bool(numtr) and cfg.dominates(sub[0], numtr[0])
    if ok:
        # the three steps happen in this order on every path: N-scaling dominates each division, each division precedes the relaxation
        mulN = [c for c, k in kinds if k == "mul-N"]
        rel_ = [c for c, k in kinds if k == "mul-relax"]
        ok = all(cfg.dominates(mulN[0], c) for c, k in kinds if k == "div-D") and cfg.must_pass_from_entry(rel_, lambda x: x.i in divids) is None
    ctx.ob("C08.c-update-shape", f.qn, "numerator-pipeline", ok, f.where(), "sub-gradient -> *num_subsets -> /D -> *relaxation -> image += numerator" if ok else "update pipeline is %s" % compact)
    ctx.require_count("C08.b-positive-denominator", 2)
    # ---- d  the denominator is what the property says: D = -(approximate Hessian applied to an image of ones) + 2 * surrogate curvature
    #         of the prior.  In update_estimate: the image that is thresholded and divided by is, with a prior, 2*curvature + stored
    #         denominator (curvature computed by the prior for the CURRENT image into that same work image), without a prior the
    #         stored denominator itself.
    curv = [c for c in f.calls() if (c.callee or "").endswith("::parabolic_surrogate_curvature")]
    okd, detd = False, "no work image / no surrogate-curvature call"
    if WORK is not None and len(curv) == 1 and thr:
        a = curv[0].call_args()
        into_work = key(a[0].strip()) == WORK and key(a[1].strip()) == img
        comb = [c for c in tr if obj(c.call_args()[0]) == WORK and obj(c.call_args()[-2]) == WORK and len(c.call_args()) == 5 and obj(c.call_args()[2]) == STORED]
        e = lam(comb[0]) if len(comb) == 1 else None
        two_plus = e is not None and sympy.simplify(e - (2 * P1 + P2)) == 0
        order = len(comb) == 1 and cfg.dominates(curv[0], comb[0]) and cfg.dominates(comb[0], thr[0]) is False and cfg.must_pass_before_exit([comb[0]], lambda x: x.i == thr[0].i) is None
        copies = [m for m in f.walk() if m.k in ("BinaryOperator", "CXXOperatorCallExpr") and m.op == "=" and key(m.c[0].strip()) == WORK and key(m.c[1].strip()) == STORED]

        def prior_branch(node):
            """True: node lies where a prior is present, False: where it is absent (nearest test of prior_is_zero())"""
            prev = node
            for a_ in node.ancestors():
                if a_.k == "IfStmt" and a_.c and "prior_is_zero()" in key(a_.c[0]):
                    cnd = a_.c[0].strip()
                    negated = cnd.k == "UnaryOperator" and cnd.op == "!"
                    in_then = len(a_.c) > 1 and any(x is node for x in a_.c[1].walk())
                    return negated == in_then
                prev = a_
            return None

        prior_guard = prior_branch(curv[0]) is True and len(comb) == 1 and prior_branch(comb[0]) is True
        no_prior = len(copies) == 1 and prior_branch(copies[0]) is False and cfg.must_pass_before_exit([copies[0]], lambda x: x.i == thr[0].i) is None
        okd = into_work and two_plus and order and prior_guard and no_prior
        detd = "D = 2 * prior.parabolic_surrogate_curvature(current image) + stored denominator (prior present), = stored denominator (no prior); thresholded afterwards" if okd else "denominator is not 2*surrogate curvature + stored denominator: curvature of the current image into the work image=%s, combination `2*_1+_2`=%s (%s), order=%s, under !prior_is_zero()=%s, no-prior copy=%s" % (into_work, two_plus, e, order, prior_guard, no_prior)
    ctx.ob("C08.d-denominator-definition", f.qn, "curvature-plus-stored", okd, f.where(), detd)
    u2 = ctx.ex.get(reqs[1])
    if u2 is None:
        return
    pre = [g for g in u2.functions if g.short == "precompute_denominator_of_conditioner_without_penalty" and g.body is not None and not g.is_dependent and g.cfg_raw]
    sup = [g for g in u2.functions if g.short == "set_up" and g.body is not None and not g.is_dependent and g.cfg_raw]
    if not pre or not sup:
        ctx.fail_broken("anchor precompute_denominator_of_conditioner_without_penalty / set_up (instantiation) not found")
        return
    g = pre[0]
    gcfg = CFG(g)
    hess = [c for c in g.calls() if (c.callee or "").endswith("::add_multiplication_with_approximate_Hessian_without_penalty")]
    ok1, det1 = False, "expected one call of add_multiplication_with_approximate_Hessian_without_penalty"
    if len(hess) == 1:
        a = hess[0].call_args()
        out_is_stored = key(a[0].strip()) == STORED
        ones_k = key(a[1].strip())  # *ONES
        ones_root = ones_k.lstrip("*")
        fills = [c for c in g.calls() if c.callee == "std::fill" and len(c.call_args()) == 3 and obj(c.call_args()[0]).lstrip("*") == ones_root and key(c.call_args()[1]).lstrip("*").startswith(ones_root) and key(c.call_args()[1]).endswith(".end_all()")]
        ones = len(fills) == 1 and str(fills[0].call_args()[2].strip().get("v")) in ("1", "1.0") and gcfg.dominates(fills[0], hess[0])
        later_writes = [m for m in g.walk() if m.i in gcfg.pos and m.i != (fills[0].i if fills else -1) and any(root_of_lvalue(e2).lstrip("*") == ones_root for e2 in written_lvalues(m)) and m.k != "VarDecl"]
        neg = []
        for c in g.calls():
            if c.callee == "std::for_each" and len(c.call_args()) == 3 and obj(c.call_args()[0]) == STORED and key(c.call_args()[1]) == STORED + ".end_all()":
                lamb = [m for m in c.call_args()[2].walk() if m.k == "LambdaExpr"] or [c.call_args()[2].strip()]
                body = lamb[0]
                asg = [m for m in body.walk() if m.k == "BinaryOperator" and m.op == "=" and m.c[1].strip().k == "UnaryOperator" and m.c[1].strip().op == "-" and key(m.c[1].strip().c[0].strip()) == key(m.c[0].strip())]
                if asg:
                    neg.append(c)
        negated_once = len(neg) == 1 and gcfg.dominates(hess[0], neg[0]) and gcfg.must_pass_before_exit([hess[0]], lambda x: x.i == neg[0].i) is None
        ok1 = out_is_stored and ones and negated_once
        det1 = "stored denominator += approximate Hessian applied to an image filled with 1, then every element negated once, on every path" if ok1 else "accumulates into the stored denominator=%s, input filled with 1 before the call=%s, negated once afterwards on every path=%s" % (out_is_stored, ones, negated_once)
    ctx.ob("C08.d-denominator-definition", g.qn, "minus-hessian-times-ones", ok1, g.where(), det1)
    h = sup[0]
    hcfg = CFG(h)
    pcs = [c for c in h.calls() if (c.callee or "").endswith("::precompute_denominator_of_conditioner_without_penalty")]
    fresh = [c for c in h.calls() if c.k == "CXXMemberCallExpr" and (c.callee or "").endswith("::reset") and key(c.c[0].strip()) == "this.precomputed_denominator_ptr" and c.call_args() and (getattr(c.call_args()[0].strip(), "callee", "") or "").endswith("::get_empty_copy")]
    ok2 = len(pcs) == 1 and any(hcfg.dominates(fr, pcs[0]) and hcfg.paths_avoiding([hcfg.pos[fr.i]], lambda x: False, target_pred=lambda x: x.i == pcs[0].i, to_exit=False) is not None for fr in fresh)
    if ok2:
        # nothing writes the accumulator between the fresh copy and the precomputation
        fr = [x for x in fresh if hcfg.dominates(x, pcs[0])][-1]
        between = [m for m in h.walk() if m.i in hcfg.pos and m.i not in (fr.i, pcs[0].i) and any(root_of_lvalue(e2).lstrip("*") == "this.precomputed_denominator_ptr" for e2 in written_lvalues(m)) and hcfg.dominates(fr, m) and hcfg.dominates(m, pcs[0])]
        ok2 = not between
    ctx.ob("C08.d-denominator-definition", h.qn, "accumulator-starts-empty", ok2, h.where(), "the stored denominator is a fresh empty copy of the target when the Hessian term is accumulated into it" if ok2 else "the Hessian term is not accumulated into a fresh empty image")
    ctx.require_count("C08.d-denominator-definition", 3)
    # ---- e  update_estimate() modifies the stored denominator in place (adds the prior's share at the start of a run, thresholds it), and
    #         its documentation says set_up() has to be called before a new run for that reason.  Hence every successful path of set_up()
    #         gives the member a new value (fresh copy + precomputation, fresh copy filled with 1, or read from file) - a path that keeps
    #         the object of the previous run makes a resumed or repeated run start from a denominator that already contains the prior.
    rets = [m for m in h.walk() if m.k == "ReturnStmt" and "Succeeded::yes" in key(m)]
    if not rets:
        ctx.unrec(h.qn, "no `return Succeeded::yes` found in set_up")
    else:

        def writes_stored(x):
            if x.k == "CXXMemberCallExpr" and (x.callee or "").endswith("::reset") and x.c and key(x.c[0].strip()) == "this.precomputed_denominator_ptr" and x.call_args():
                return True
            if x.k in ("BinaryOperator", "CXXOperatorCallExpr") and x.op == "=" and len(x.c) >= 2 and key(x.c[-2].strip()) == "this.precomputed_denominator_ptr":
                return True
            return False

        w = hcfg.must_pass_from_entry([r for r in rets if r.i in hcfg.pos], writes_stored)
        ok3 = w is None and all(r.i in hcfg.pos for r in rets)
        ctx.ob("C08.e-set-up-renews-denominator", h.qn, "every-successful-path", ok3, h.where(), "every successful path of set_up() gives precomputed_denominator_ptr a new value (the previous run modified the old one in place)" if ok3 else "a successful path of set_up() keeps the stored denominator of the previous run, which update_estimate() has modified in place (prior share added, thresholded): a resumed or repeated run no longer starts from -(approximate Hessian x ones)")
    ctx.require_count("C08.e-set-up-renews-denominator", 1)
    # ---- h  `iterates always lie within [0, upper bound]`: the interval must not be empty - set_up() refuses an upper bound that is not
    #         positive (a negative one was accepted and every voxel of every iterate became that number; F99).  The member is the one the
    #         clamp of clause a reads.
    ubk = "this.upper_bound"
    refused = False
    for m in h.walk():
        if m.k != "IfStmt":
            continue
        c = m.c[0].strip()
        cmp_ = [b for b in c.walk() if b.k == "BinaryOperator" and ((b.op in ("<=", "<") and key(b.c[0].strip()) == ubk and key(b.c[1].strip()) in ("0", "0.0")) or (b.op in (">=", ">") and key(b.c[1].strip()) == ubk and key(b.c[0].strip()) in ("0", "0.0")))]
        cmp_ = [b for b in cmp_ if b.op in ("<=", ">=")]
        if cmp_ and any((x.k == "ReturnStmt" and "Succeeded::no" in key(x)) or (x.is_call() and (x.callee or "").split("::")[-1] == "error") for x in m.c[1].walk()):
            refused = True
    ctx.ob("C08.h-bounds-validated", h.qn, "upper-bound-positive", refused, h.where(), "set_up() refuses an upper bound <= 0" if refused else "set_up() accepts an upper bound <= 0: the interval [0, upper bound] is empty and the clamp makes every voxel of every iterate equal to the (negative) upper bound")
    ctx.require_count("C08.h-bounds-validated", 1)
    # ---- f  OSSPS adds the prior's surrogate curvature to D once per run unless the prior says that the curvature depends on the image
    #         (parabolic_surrogate_curvature_depends_on_argument()).  A prior that answers `false` must be right: in its
    #         parabolic_surrogate_curvature(out, image) no ELEMENT of `image` may be read - only its index ranges / geometry.
    for r in reqs[2:4]:
        u = ctx.ex.get(r)
        if u is None:
            continue
        flag = [g for g in u.functions if g.short == "parabolic_surrogate_curvature_depends_on_argument" and g.body is not None]
        curvf = [g for g in u.functions if g.short == "parabolic_surrogate_curvature" and g.body is not None and len(g.params) == 2]
        if not flag or not curvf:
            ctx.unrec(r.source, "parabolic_surrogate_curvature / ..._depends_on_argument not found")
            continue
        rv = [m for m in flag[0].walk() if m.k == "ReturnStmt" and m.c]
        says = {key(m.c[0].strip()) for m in rv}
        g = curvf[0]
        img = "v%d" % g.params[1]["d"]
        reads = []
        for m in g.walk():
            # an element read: a subscript chain rooted in the image parameter (or a reference/cast of it)
            if (m.k == "CXXOperatorCallExpr" and m.op == "[]") or m.k == "ArraySubscriptExpr":
                root = m
                depth = 0
                while (root.k == "CXXOperatorCallExpr" and root.op == "[]" and root.c) or root.k == "ArraySubscriptExpr":
                    root = root.c[0].strip()
                    depth += 1
                if root.k == "DeclRefExpr" and key(root) == img and depth >= 3 and not ((m.parent.k == "CXXOperatorCallExpr" and m.parent.op == "[]") or m.parent.k == "CXXMemberCallExpr" and m.parent.c and m.parent.c[0] is m):
                    reads.append(m)
        depends = bool(reads)
        if says == {"false"}:
            ok = not depends
            det = "answers `false`, and parabolic_surrogate_curvature reads no element of the image (index ranges only)" if ok else "answers `false`, but parabolic_surrogate_curvature reads elements of the image (%s:%d): OSSPS keeps the penalty part of its denominator from the first sub-iteration of the run instead of recomputing it for the current image" % (g.file, reads[0].line)
        elif says == {"true"}:
            ok, det = True, "answers `true`: OSSPS recomputes the penalty part of the denominator at every sub-iteration (always correct)"
        else:
            ctx.unrec(flag[0].qn, "return value not a literal: %s" % sorted(says))
            continue
        ctx.ob("C08.f-curvature-dependence-flag", flag[0].qn, "flag-agrees-with-code", ok, flag[0].where(), det)
    ctx.require_count("C08.f-curvature-dependence-flag", 2)
    # ---- g  restartability of the iterate: nothing that modifies the CURRENT IMAGE in update_estimate is conditional on where the run
    #         started (start_subiteration_num) - a resumed run would do it again at a point where the uninterrupted run does not.
    #         (Run-local state that set_up() renews - the stored denominator, clause e - may be initialised at the first sub-iteration.)
    imgp = "v%d" % f.params[0]["d"] if f.params else None
    n_g = 0
    for m in f.walk():
        if not m.is_call() and m.k not in ("CompoundAssignOperator",):
            continue
        wl = written_lvalues(m)
        a0 = [key(a.strip()) for a in m.call_args()] if m.is_call() else []
        touches = any(root_of_lvalue(e2).lstrip("*") == imgp for e2 in wl) or (m.is_call() and imgp in a0 and (m.callee or "").split("::")[-1] in ("fill_nonidentifiable_target_parameters", "threshold_upper_lower", "threshold_min_to_small_positive_value", "fill"))
        if not touches:
            continue
        conds = [a_.c[0] for a_ in m.ancestors() if a_.k == "IfStmt" and a_.c and any(x is m for x in (a_.c[1].walk() if len(a_.c) > 1 else []))] + [a_.c[0] for a_ in m.ancestors() if a_.k == "IfStmt" and len(a_.c) > 2 and any(x is m for x in a_.c[2].walk())]
        dep = [c for c in conds if "start_subiteration_num" in key(c)]
        if not conds:
            continue
        ctx.ob("C08.g-iterate-independent-of-run-start", f.qn, "modification@%s" % (m.callee or m.k).split("::")[-1], not dep, m.where(), "modifies the current image under a condition that does not involve the start of the run" if not dep else "the current image is modified (%s) only when `%s`: a run resumed at sub-iteration k+1 does this again at k+1 where the uninterrupted run does not - with a prior the two runs differ in the voxels concerned" % ((m.callee or m.k).split("::")[-1], key(dep[0], True)))
        n_g += 1
    ctx.require_count("C08.g-iterate-independent-of-run-start", 1)
