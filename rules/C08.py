"""C08 - OSSPS sub-iteration.  Decided clauses (structure of update_estimate):

 a  RF2  the iterate ends inside [0, upper bound]: a clamp of the whole current image with lower bound 0 and upper bound
         `upper_bound` follows every modification of the current image on every path
 b  RF2  every division is by a denominator that passed threshold_min_to_small_positive_value: the freshly built one in
         the branch taken in the first executed sub-iteration (or when the penalty curvature must be recomputed), the stored
         one otherwise; the stored one is written from the thresholded image
 c  RF11 update shape: numerator = sub-gradient * num_subsets / D * relaxation, with
         relaxation = relaxation_parameter / (1 + relaxation_gamma * (subiteration_num / num_subsets)); then image += it
"""
import re

import sympy

from engine.algebra import Algebra
from engine.cfg import CFG
from engine.extract import Request
from engine.tree import key, root_of_lvalue, written_lvalues

SRC = "src/iterative/OSSPS/OSSPSReconstruction.cxx"


def requests():
    return [Request(SRC, fn=["stir::OSSPSReconstruction::update_estimate"])]


def run(ctx):
    ctx.explanation = (
        "Decides the structure of OSSPSReconstruction::update_estimate: (a) every modification of the current image is followed on "
        "every path by threshold_upper_lower(image, 0, upper_bound) over the whole image, so iterates end in [0, upper bound]; (b) each "
        "division `_1 / _2` divides by the image that passed threshold_min_to_small_positive_value in this call, or by the stored "
        "denominator in the branch that excludes the first executed sub-iteration, and the stored denominator is copied from the "
        "thresholded image; (c) the additive update is subgradient*num_subsets/D*relaxation with relaxation = alpha/(1+gamma*(n div N)). "
        "NOT decided: that D equals the stated curvature, restart equality (numerical / history)."
    )
    reqs = requests()
    ctx.ex.prefetch(reqs)
    u = ctx.ex.get(reqs[0])
    if u is None:
        return
    fs = [f for f in u.functions if f.body is not None and not f.is_dependent and f.cfg_raw]
    if not fs:
        ctx.fail_broken("anchor OSSPSReconstruction::update_estimate (instantiation) not found")
        return
    f = fs[0]
    cfg = CFG(f)
    img = "v%d" % f.params[0]["d"]
    # ---- a
    writes = [m for m in f.walk() if m.i in cfg.pos and any(root_of_lvalue(e) == img for e in written_lvalues(m)) and not (m.is_call() and (m.callee or "").endswith("threshold_upper_lower"))]
    writes = [m for m in writes if not (m.k == "CXXMemberCallExpr" and (m.callee or "").split("::")[-1] in ("begin_all", "end_all", "get_empty_copy"))]
    clamps = [c for c in f.calls() if (c.callee or "").endswith("threshold_upper_lower") and key(c.call_args()[0], True).startswith(f.params[0]["n"] + ".begin_all")]
    ok = False
    det = "no clamp of the current image"
    if clamps:
        c = clamps[-1]
        a = c.call_args()
        alg = Algebra(f, names=True)
        lo = alg.expr(a[2])
        hi_key = key(a[3], True, {d: alg.defs.single_def(d) for d in alg.defs.decl})
        whole = key(a[0], True) == f.params[0]["n"] + ".begin_all()" and key(a[1], True) == f.params[0]["n"] + ".end_all()"
        w = cfg.must_pass_before_exit(writes, lambda x: x.i == c.i)
        ok = whole and lo == 0 and "this.upper_bound" in hi_key and w is None
        det = "threshold_upper_lower(image.begin_all(), image.end_all(), %s, %s) follows all %d modifications of the image" % (lo, hi_key, len(writes)) if ok else "clamp: whole=%s lower=%s upper=%s, a modification can reach the exit without it=%s" % (whole, lo, hi_key, w is not None)
    ctx.ob("C08.a-iterate-clamped", f.qn, "clamp-to-[0,upper_bound]", ok, f.where(), det)
    # ---- b
    tr = [c for c in f.calls() if c.callee == "std::transform"]
    divs = [c for c in tr if key(c.call_args()[-1], True).replace(" ", "") in ("(/boost::lambda::_1boost::lambda::_2)",) or re.fullmatch(r"\(/ .*_1.* .*_2.*\)", key(c.call_args()[-1], True))]
    thr = [c for c in f.calls() if (c.callee or "").endswith("threshold_min_to_small_positive_value")]
    store = [m for m in f.walk() if m.k in ("BinaryOperator", "CXXOperatorCallExpr") and m.op == "=" and key(m.c[0], True) == "*this.precomputed_denominator_ptr"]
    n_ok = 0
    for i, d in enumerate(divs):
        divisor = key(d.call_args()[2], True)
        if "work_image_ptr" in divisor:
            ok = bool(thr) and "work_image_ptr" in key(thr[0].call_args()[0], True) and cfg.dominates(thr[0], d) and thr[0].i != d.i
            det = "divisor work image passed threshold_min_to_small_positive_value first" if ok else "division by an un-thresholded work image"
        elif "precomputed_denominator_ptr" in divisor:
            facts = cfg.facts_at(d)
            not_first = any(tv is False and "get_subiteration_num()" in k and "get_start_subiteration_num()" in k and k.startswith("(== ") for k, tv, _r in facts)
            stored_from_thr = bool(store) and "work_image_ptr" in key(store[0].c[1], True) and bool(thr) and cfg.dominates(thr[0], store[0])
            st_facts = cfg.facts_at(store[0]) if store else frozenset()
            ok = not_first and stored_from_thr
            det = "stored denominator is used only after the first executed sub-iteration and was copied from the thresholded image" if ok else "stored denominator used in the first sub-iteration (%s) or not copied from the thresholded image (%s)" % (not not_first, not stored_from_thr)
        else:
            ok, det = False, "division by %s, which is neither the thresholded work image nor the stored denominator" % divisor
        ctx.ob("C08.b-positive-denominator", f.qn, "division@%d" % i, ok, d.where(), det)
        n_ok += 1
    # ---- c
    rel = [m for m in f.walk() if m.k == "VarDecl" and m.get("n") == "relaxation_parameter" and m.c]
    ok = False
    det = "no local relaxation_parameter"
    if rel:
        k = key(rel[0].c[0].strip(), True)
        ok = k == "(/ this.relaxation_parameter (+ 1 (* this.relaxation_gamma (/ this.subiteration_num this.num_subsets))))"
        det = "relaxation = " + k
    ctx.ob("C08.c-update-shape", f.qn, "relaxation", ok, f.where(), det)
    lam = [key(c.call_args()[-1], True) for c in tr if "numerator_ptr" in key(c.call_args()[0], True)]
    seq = [("mul-N", r"\(\* .*_1.* this\.num_subsets\)"), ("div-D", r"\(/ .*_1.* .*_2.*\)"), ("mul-relax", r"\(\* \(\* .*_1.* relaxation_parameter\) alpha\)|\(\* .*_1.* relaxation_parameter\)")]
    kinds = []
    for l in lam:
        for nm, pat in seq:
            if re.fullmatch(pat, l):
                kinds.append(nm)
    # order along any path: N-scaling, then division (either branch), then relaxation
    compact = [k for i, k in enumerate(kinds) if i == 0 or kinds[i - 1] != k]
    ok = compact == ["mul-N", "div-D", "mul-relax"]
    add = [m for m in f.walk() if m.k in ("CompoundAssignOperator", "CXXOperatorCallExpr") and m.op == "+=" and key(m.c[0], True) == f.params[0]["n"] and "numerator_ptr" in key(m.c[1], True)]
    sub = [c for c in f.calls() if (c.callee or "").endswith("::compute_sub_gradient")]
    numtr = [c for c in tr if "numerator_ptr" in key(c.call_args()[0], True)]
    divids = {c.i for c in numtr if re.fullmatch(seq[1][1], key(c.call_args()[-1], True))}
    straight = [c for c in numtr if c.i not in divids]
    ok = ok and len(add) == 1 and len(sub) == 1 and all(cfg.dominates(c, add[0]) for c in straight) and cfg.must_pass_from_entry(add, lambda x: x.i in divids) is None and cfg.dominates(sub[0], numtr[0])
    ctx.ob("C08.c-update-shape", f.qn, "numerator-pipeline", ok, f.where(), "sub-gradient -> *num_subsets -> /D -> *relaxation -> image += numerator" if ok else "update pipeline is %s" % compact)
    ctx.require_count("C08.b-positive-denominator", 2)
