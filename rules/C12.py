"""C12 - bin coordinates, lines of response and detector positions.  Only structural clauses are decided (the geometry itself is
floating-point arithmetic over runtime scanner parameters and is NOT decided):

 a  typestate of get_bin(LOR): a bin coordinate is not modified after it was range-tested on a path to the successful return, and
    the coordinates that are computed (tangential, axial) are range-tested before the success return: a bin handed back as found is
    inside the data, a line that misses is reported with value -1
 b  the view wrap-around is applied to all coordinates together: where a computed view beyond the last view is folded back by
    num_views, the tangential position is negated and the ring-difference (segment) is computed with the end points exchanged under
    the same flag
 c  closed-form symmetries of the coordinate accessors (sympy): arc-corrected get_s is linear in the tangential position with no
    offset (uniform sampling, odd), non-arc-corrected get_s is odd, get_phi is affine in the view with slope = the azimuthal
    sampling, get_tantheta is odd in the ring difference and even in s, get_m is affine in the axial position with slope = the
    segment's axial sampling
"""
import re

import sympy

from engine.algebra import data_slice,  Algebra, LocalDefs
from engine.cfg import CFG
from engine.extract import Request
from engine.tree import key, root_of_lvalue, written_lvalues

B = "src/buildblock/"
UNITS = [B + "ProjDataInfoCylindricalArcCorr.cxx", B + "ProjDataInfoCylindricalNoArcCorr.cxx", B + "ProjDataInfoGenericNoArcCorr.cxx", B + "ProjDataInfoBlocksOnCylindricalNoArcCorr.cxx"]
COORDS = ("segment_num", "axial_pos_num", "view_num", "tangential_pos_num", "timing_pos_num")


def requests():
    r = [Request(u, fn=["stir::ProjDataInfo.*::get_bin$", "stir::ProjDataInfo.*::find_bin_given_cartesian_coordinates_of_detection"], files=["/repo/src/buildblock/.*"]) for u in UNITS]
    r.append(Request(B + "ProjDataInfoCylindricalArcCorr.cxx", fn=["stir::ProjDataInfoCylindricalArcCorr::get_s", "stir::ProjDataInfoCylindricalNoArcCorr::get_s", "stir::ProjDataInfoCylindrical::get_(phi|m|tantheta)"], files=["/repo/src/include/stir/ProjDataInfoCylindrical.*\\.inl"]))
    r.append(Request(B + "ProjDataInfoCylindricalNoArcCorr.cxx", fn=["stir::ProjDataInfoCylindricalNoArcCorr::get_s"], files=["/repo/src/include/stir/ProjDataInfoCylindrical.*\\.inl"]))
    r.append(Request(B + "ProjDataInfoCylindrical.cxx", fn=["stir::ProjDataInfoCylindrical::ProjDataInfoCylindrical"]))
    r.insert(-1, Request(B + "ProjDataInfoGenericNoArcCorr.cxx", fn=["stir::ProjDataInfoGeneric::get_tantheta", "stir::ProjDataInfoCylindrical::get_tantheta"], files=["/repo/src/include/stir/ProjDataInfo.*\\.inl"]))
    r.append(Request(B + "ProjDataInfoGenericNoArcCorr.cxx", fn=["stir::ProjDataInfoGeneric(NoArcCorr)?::get_(s|phi|m|tantheta)"], files=["/repo/src/include/stir/ProjDataInfoGeneric.*\\.inl"]))
    return r


def _bin_local(f):
    """the Bin that is returned"""
    for r in f.walk():
        if r.k == "ReturnStmt" and r.c:
            e = r.c[0].strip()
            while e.k in ("CXXConstructExpr", "Cast") and len(e.c) == 1:
                e = e.c[0].strip()
            if e.k == "DeclRefExpr" and "Bin" in (e.type or ""):
                return e.get("d")
    return None


def rule_a(ctx, f):
    bd = _bin_local(f)
    fid = f.qn
    if bd is None:
        ctx.unrec(fid, "no Bin local is returned")
        return 0
    bk = "v%d" % bd
    cfg = CFG(f)
    # success returns: those not dominated by set_bin_value(-1) since the last ... simply: returns whose block's preceding statement
    # is not set_bin_value(negative)
    rets = [r for r in cfg.return_nodes() if r.c]
    neg = [c for c in f.calls() if (c.callee or "").endswith("::set_bin_value") and c.c and key(c.c[0].strip()) == bk and re.fullmatch(r"\(- 1(\.0)?\)|-1(\.0)?", key(c.call_args()[0].strip())) is not None]

    def is_miss(r):
        # a `return bin` directly preceded (same compound statement) by bin.set_bin_value(-1)
        p = r.parent
        if p is None or p.k != "CompoundStmt":
            return False
        i = [x for x in p.c].index(r)
        return i > 0 and any(x is p.c[i - 1] or any(y is x for y in p.c[i - 1].walk()) for x in neg)

    success = [r for r in rets if not is_miss(r)]
    n = 0
    for c in COORDS:
        ck = "%s.%s()" % (bk, c)
        writes = [m for m in f.walk() if m.i in cfg.pos and any(key(e.strip()) == ck for e in written_lvalues(m))]
        # the coordinate may also be filled in by a callee taking the bin by reference (get_bin_for_det_pair ...): then the test must
        # follow that call
        fills = [m for m in f.walk() if m.is_call() and m.i in cfg.pos and (m.callee or "").split("::")[-1].startswith("get_bin_for_det") and any(key(a.strip()) == bk for a in m.call_args())]
        # range tests: comparisons of the coordinate with its get_min/get_max that DECIDE found / missing, i.e. that sit in the condition
        # of an if-statement one of whose branches reports the miss (a loop bound or the wrap-around flag is not a range test)
        deciding = [g for g in f.walk() if g.k == "IfStmt" and g.c and any(any(y is x for y in br.walk()) for x in neg for br in g.c[1:])]
        tests = []
        for g in deciding:
            for m in g.c[0].walk():
                if m.k == "BinaryOperator" and m.op in ("<", ">", "<=", ">=") and m.i in cfg.pos:
                    a, b = key(m.c[0].strip()), key(m.c[1].strip())
                    if (ck in a and re.search(r"get_(min|max)_%s\(" % c, b)) or (ck in b and re.search(r"get_(min|max)_%s\(" % c, a)):
                        # also a wrapped coordinate (std::abs(x) <= max): that is a test against the bound it names, and only that one
                        tests.append(m)
        if not tests:
            continue
        # no write to the coordinate after one of its range tests on a path to a success return
        bad = None
        for t in tests:
            p = cfg.pos.get(t.i)
            for w in writes + fills:
                if w.i == t.i:
                    continue
                if cfg.paths_avoiding([p], lambda x: False, target_pred=lambda x, w=w: x.i == w.i, to_exit=False) is not None:
                    pw = cfg.pos.get(w.i)
                    again = cfg.paths_avoiding([pw], lambda x: x.i in {y.i for y in tests}, target_pred=lambda x: x.i in {r.i for r in success}, to_exit=False)
                    if again is not None:
                        bad = (t, w)
        ctx.ob("C12.a-range-test-after-last-modification", fid, c, bad is None, (bad[1] if bad else tests[0]).where(), "%s is range-tested after its last modification on every path to a successful return (%d tests, %d writes)" % (c, len(tests), len(writes) + len(fills)) if bad is None else "%s is modified at line %d after its range test at line %d and returned without another test: a bin outside the data can be returned as found / a valid line reported as missing" % (c, bad[1].line, bad[0].line))
        n += 1

        # every modification is followed by a range test before the bin can be returned as found: the modification dominates a test
        # (or precedes it inside one short-circuit condition), and that test's if-statement dominates every success return
        def precedes(w, t):
            if cfg.dominates(w, t) and w.i != t.i:
                return True
            wa = [w] + list(w.ancestors())
            for a in t.ancestors():
                if a.k == "BinaryOperator" and a.op == "&&" and any(x is a for x in wa):
                    return any(x is a.c[0] or any(y is x for y in a.c[0].walk()) for x in [w]) and any(y is t for y in a.c[1].walk())
            return False

        lows = [t for t in tests if (t.op in (">=", ">") and key(t.c[0].strip()) == ck) or (t.op in ("<=", "<") and key(t.c[1].strip()) == ck) or (t.op in ("<", "<=") and key(t.c[0].strip()) == ck and "get_min_" in key(t.c[1].strip())) or (t.op in (">", ">=") and key(t.c[1].strip()) == ck and "get_min_" in key(t.c[0].strip()))]
        okb = True
        succ_ids = {r.i for r in success}
        for w in writes + fills:
            for bound in ("get_min_", "get_max_"):
                bt = [t for t in tests if bound in key(t)]
                if any(precedes(w, t) for t in bt):
                    continue
                # a (possibly conditional) modification: no path from it to a successful return may avoid the tests of this bound
                pw = cfg.pos.get(w.i)
                if pw is None or not bt or cfg.paths_avoiding([pw], lambda x, bt=bt: x.i in {y.i for y in bt}, target_pred=lambda x: x.i in succ_ids, to_exit=False) is not None:
                    okb = False
        tg = {id(g) for g in deciding if any(any(y is t for y in g.c[0].walk()) for t in tests)}
        for r_ in success:
            def conjunct_of(t, g):
                # t is reached from g's condition through && operands only
                n_ = t
                while n_ is not None and n_ is not g.c[0]:
                    p_ = n_.parent
                    if p_ is None:
                        return False
                    if p_ is g.c[0] or p_.k in ("Cast", "ParenExpr") or (p_.k == "BinaryOperator" and p_.op == "&&"):
                        n_ = p_
                        continue
                    return p_ is g
                return True

            in_then = [g for g in deciding if len(g.c) >= 2 and any(y is r_ for y in g.c[1].walk()) and any(conjunct_of(t, g) for t in tests if "get_min_" in key(t)) and any(conjunct_of(t, g) for t in tests if "get_max_" in key(t))]
            if not any(cfg.dominates(t, r_) for t in tests) and not in_then:
                okb = False
        if writes or fills:
            ctx.ob("C12.a-range-test-after-last-modification", fid, c + ":tested-before-success", okb, tests[0].where(), "every modification of %s is followed by tests against both its minimum and maximum, and such a test decides every successful return" % c if okb else "a path sets %s and returns the bin as found without a range test against both bounds" % c)
            n += 1
    return n


def rule_a_out_parameter(ctx, f):
    """The same clause for a helper that reports through a Bin& parameter (miss = set_bin_value(-1), found = any other exit): the
    coordinates a callee fills in (get_bin_for_det...) are compared with BOTH their get_min_ and get_max_ accessor, unwrapped, in the
    condition that decides the miss, and no found-exit avoids that condition."""
    pp = [p for p in f.params if re.search(r"\bBin &$", p["t"].strip())]
    if len(pp) != 1:
        return 0
    bk = "v%d" % pp[0]["d"]
    cfg = CFG(f)
    neg = [c for c in f.calls() if (c.callee or "").endswith("::set_bin_value") and c.c and key(c.c[0].strip()) == bk and re.fullmatch(r"\(- 1(\.0)?\)|-1(\.0)?", key(c.call_args()[0].strip())) is not None and c.i in cfg.pos]
    fills = [m for m in f.walk() if m.is_call() and m.i in cfg.pos and (m.callee or "").split("::")[-1].startswith("get_bin_for_det") and any(key(a.strip()) == bk for a in m.call_args())]
    if not neg or not fills:
        return 0
    n = 0
    deciding = [g for g in f.walk() if g.k == "IfStmt" and g.c and any(any(y is x for y in br.walk()) for x in neg for br in g.c[1:]) and any(any(y is fl for y in g.c[0].walk()) or cfg.dominates(fl, g.c[0].strip()) for fl in fills)]
    for c in COORDS:
        ck = "%s.%s()" % (bk, c)
        tests = []
        for g in deciding:
            for m in g.c[0].walk():
                if m.k == "BinaryOperator" and m.op in ("<", ">", "<=", ">="):
                    a, b = key(m.c[0].strip()), key(m.c[1].strip())
                    for x, y in ((a, b), (b, a)):
                        mm = re.search(r"get_(min|max)_%s\(" % c, y)
                        if mm and ck in x:
                            tests.append((mm.group(1), x == ck, m))
        if not tests:
            continue
        both = {b_ for b_, exact, _m in tests if exact} >= {"min", "max"}
        # every exit that is not a miss passes the deciding condition after the fill
        dec_ids = {m.i for g in deciding for m in g.c[0].walk()}
        neg_ids = {x.i for x in neg}
        escape = any(cfg.paths_avoiding([cfg.pos[fl.i]], lambda x: x.i in dec_ids or x.i in neg_ids) is not None for fl in fills)
        ok = both and not escape
        ctx.ob("C12.a-range-test-after-last-modification", f.qn, c + ":tested-before-success", ok, tests[0][2].where(), "the %s a callee filled in is compared with both its minimum and its maximum in the condition that decides found / missing" % c if ok else "the %s a callee filled in is not compared with both bounds (%s) before the bin is left as found: a bin outside the data is reported as found or a valid one as missing" % (c, ", ".join("%s%s" % (b_, "" if e else " (wrapped)") for b_, e, _m in tests)))
        n += 1
    return n


def rule_b(ctx, f):
    """view wrap-around"""
    bd = _bin_local(f)
    if bd is None:
        return 0
    bk = "v%d" % bd
    defs = LocalDefs(f)
    # the wrap flag: a bool local initialised with `bin.view_num() > get_max_view_num()`
    flags = [d for d, vd in defs.decl.items() if vd.c and re.fullmatch(r"\(> %s\.view_num\(\) this\.get_max_view_num\(\)\)" % bk, key(vd.c[0].strip())) is not None]
    if not flags:
        return 0
    n = 0
    for fd in flags:
        fk = "v%d" % fd
        guarded = [m for m in f.walk() if m.k == "IfStmt" and m.c and key(m.c[0].strip()) == fk]
        folds = any(x.k == "CompoundAssignOperator" and x.op == "-=" and key(x.c[0].strip()) == bk + ".view_num()" and key(x.c[1].strip()) == "this.get_num_views()" for g in guarded for x in g.c[1].walk())
        neg_t = any(x.k == "CompoundAssignOperator" and x.op == "*=" and key(x.c[0].strip()) == bk + ".tangential_pos_num()" and key(x.c[1].strip()) in ("(- 1)", "-1") for g in guarded for x in g.c[1].walk())
        # ring difference with exchanged end points under the same flag:  flag ? z1 - z2 : z2 - z1
        conds = [m for m in f.walk() if m.k == "ConditionalOperator" and key(m.c[0].strip()) == fk]
        swap_z = False
        for m in conds:
            a, b = m.c[1].strip(), m.c[2].strip()
            if a.k == "BinaryOperator" and b.k == "BinaryOperator" and a.op == "-" and b.op == "-":
                if key(a.c[0]) == key(b.c[1]) and key(a.c[1]) == key(b.c[0]) and key(a.c[0]) != key(a.c[1]):
                    swap_z = True
        ok = folds and neg_t and swap_z
        ctx.ob("C12.b-view-wrap-flips-all", f.qn, "wrap-flag@%d" % defs.decl[fd].line, ok, "%s:%d" % (f.file, defs.decl[fd].line), "a view beyond the last view is folded back by num_views, the tangential position is negated and the ring difference is taken with the end points exchanged, all under the same flag" if ok else "view wrap-around is not applied to all coordinates together (view folded=%s, tangential negated=%s, end points exchanged=%s)" % (folds, neg_t, swap_z))
        n += 1
    return n


def rule_c(ctx, fns):
    n = 0
    by = {}
    for f in fns:
        if f.body is not None:
            by.setdefault(f.qn, f)

    def ret_expr(f, bind):
        alg = Algebra(f, names=False)

        def subs(m):
            k = key(m)
            return None

        rets = [r for r in f.walk() if r.k == "ReturnStmt" and r.c]
        if not rets:
            return None, None
        e = alg.expr(rets[-1].c[0])
        return e, alg

    bp = lambda f: "v%d" % f.params[0]["d"]
    # get_s
    for qn, kind in (("stir::ProjDataInfoCylindricalArcCorr::get_s", "arc"), ("stir::ProjDataInfoCylindricalNoArcCorr::get_s", "noarc")):
        f = by.get(qn)
        if f is None:
            ctx.fail_broken("anchor %s not found" % qn)
            continue
        e, alg = ret_expr(f, None)
        t = alg.sym(bp(f) + ".tangential_pos_num()")
        e = e.subs({s: sympy.sin(s.name and alg.expr(c.call_args()[0])) for c in f.calls() if (c.callee or "") in ("sin", "std::sin", "sinf") for s in e.free_symbols if s.name == alg.symkey(c)})
        odd = sympy.simplify(e.subs(t, -t) + e) == 0
        ctx.ob("C12.c-coordinate-symmetries", qn, "odd-in-tangential-position", odd, f.where(), "get_s(-t) = -get_s(t): %s" % e if odd else "get_s is not an odd function of the tangential position: %s" % e)
        n += 1
        if kind == "arc":
            lin = sympy.simplify(sympy.diff(e, t, 2)) == 0 and sympy.simplify(e.subs(t, 0)) == 0 and sympy.simplify(sympy.diff(e, t) - alg.sym("this.bin_size")) == 0
            ctx.ob("C12.c-coordinate-symmetries", qn, "uniform-sampling", lin, f.where(), "arc-corrected s = tangential position * bin_size (uniform tangential sampling)" if lin else "arc-corrected get_s is not tangential position * bin_size: %s" % e)
            n += 1
    f = by.get("stir::ProjDataInfoCylindrical::get_phi")
    if f is not None:
        e, alg = ret_expr(f, None)
        v = alg.sym(bp(f) + ".view_num()")
        ok = sympy.simplify(sympy.diff(e, v) - alg.sym("this.azimuthal_angle_sampling")) == 0 and sympy.simplify(e.subs(v, 0) - alg.sym("this.azimuthal_angle_offset")) == 0
        ctx.ob("C12.c-coordinate-symmetries", f.qn, "affine-in-view", ok, f.where(), "phi = view * azimuthal_angle_sampling + azimuthal_angle_offset" if ok else "get_phi = %s" % e)
        n += 1
    else:
        ctx.fail_broken("anchor ProjDataInfoCylindrical::get_phi not found")
    f = by.get("stir::ProjDataInfoCylindrical::get_m")
    if f is not None:
        e, alg = ret_expr(f, None)
        a = alg.sym(bp(f) + ".axial_pos_num()")
        slope = sympy.simplify(sympy.diff(e, a))
        ok = sympy.simplify(sympy.diff(e, a, 2)) == 0 and slope.is_Symbol and "get_axial_sampling(%s.segment_num())" % bp(f) in slope.name and not sympy.simplify(e.subs(a, 0)).has(a)
        ctx.ob("C12.c-coordinate-symmetries", f.qn, "affine-in-axial-position", ok, f.where(), "m = axial position * axial sampling of the segment - offset of the segment" if ok else "get_m = %s" % e)
        n += 1
    else:
        ctx.fail_broken("anchor ProjDataInfoCylindrical::get_m not found")
    f = by.get("stir::ProjDataInfoCylindrical::get_tantheta")
    if f is not None:
        alg = Algebra(f, names=False)
        alg.abs_exact = True  # |x| is not an odd function of x
        rets = [r for r in f.walk() if r.k == "ReturnStmt" and r.c]
        es = [alg.expr(r.c[0]) for r in rets]
        es = [e for e in es if e.free_symbols]
        if len(es) == 1:
            e = es[0]
            d = [s for s in e.free_symbols if "get_average_ring_difference(" in s.name]
            sq = [s for s in e.free_symbols if "get_s(" in s.name]
            ok = len(d) == 1 and sympy.simplify(e.subs(d[0], -d[0]) + e) == 0
            even = len(sq) == 1 and sympy.simplify(e.subs(sq[0], -sq[0]) - e) == 0
            ctx.ob("C12.c-coordinate-symmetries", f.qn, "odd-in-ring-difference-even-in-s", ok and even, f.where(), "tan(theta) is odd in the segment's average ring difference and even in s: %s" % e if ok and even else "get_tantheta = %s" % e)
            n += 1
        else:
            ctx.unrec(f.qn, "expected one non-constant return")
    else:
        ctx.fail_broken("anchor ProjDataInfoCylindrical::get_tantheta not found")
    return n


def rule_e_obliqueness_is_dz_over_chord(ctx, fns):
    """tan(theta) of a bin is the axial distance of its end points divided by their TRANSAXIAL distance, which for a line at distance s
    from the axis of a cylinder of radius R is 2*sqrt(R^2 - s^2) = 2 R cos(beta), s = R sin(beta).  Both families of geometries
    (cylindrical: from ring difference and get_s; generic/blocks: from the LOR in sinogram coordinates) must use that chord -
    dividing by the diameter 2R makes the obliqueness too small away from the centre of the field of view."""
    n = 0
    seen = set()
    for f in fns:
        if f.body is None or f.short != "get_tantheta" or f.qn in seen:
            continue
        alg = Algebra(f, names=False)
        es = [alg.expr(r.c[0]) for r in f.walk() if r.k == "ReturnStmt" and r.c]
        es = [e for e in es if e.free_symbols]
        if len(es) != 1:
            ctx.unrec(f.qn, "expected one non-constant return")
            continue
        seen.add(f.qn)
        e = es[0]
        sy = {x.name: x for x in e.free_symbols}
        R = [x for nme, x in sy.items() if "radius" in nme]
        cosb = [x for nme, x in sy.items() if "cos(" in nme and "beta()" in nme]
        sv = [x for nme, x in sy.items() if "get_s(" in nme]
        num, den = sympy.fraction(sympy.together(e))
        ok, det = False, "transaxial distance not recognised in %s" % e
        if len(R) == 1 and len(cosb) == 1:
            chord = 2 * R[0] * cosb[0]
            q = sympy.simplify(den / chord)
            ok = q.is_number and not num.has(R[0]) and not num.has(cosb[0])
            det = "tan(theta) = dz / (2 R cos(beta))" if ok else "tan(theta) = %s: the denominator is not the transaxial distance 2 R cos(beta) between the end points" % e
        elif len(R) == 1 and len(sv) == 1:
            chord = 2 * sympy.sqrt(R[0] ** 2 - sv[0] ** 2)
            q = sympy.simplify(den / chord)
            ok = q.is_number and not num.has(R[0]) and not num.has(sv[0])
            det = "tan(theta) = dz / (2 sqrt(R^2 - s^2))" if ok else "tan(theta) = %s: the denominator is not the transaxial distance 2 sqrt(R^2 - s^2) between the end points" % e
        elif len(R) == 1:
            det = "tan(theta) = %s: divides by a multiple of the radius only - the transaxial distance between the end points of a line at distance s from the axis is 2 sqrt(R^2 - s^2) = 2 R cos(beta)" % e
        ctx.ob("C12.e-obliqueness-over-transaxial-chord", f.qn, "denominator", ok, f.where(), det)
        n += 1
    return n


def rule_d_mashed_view_centred(ctx, fns):
    """get_phi(bin) = view * sampling + offset.  For data whose views combine M neighbouring unmashed views, the azimuthal angle of a
    mashed view is the mean of the angles of the views it combines: the offset exceeds the intrinsic tilt by exactly
    (pi / (N/2)) * (M - 1) / 2  - half an unmashed view step for EVEN M - with N the detectors per ring.  Closed form, with C++ integer
    division kept apart from real division (an integer (M-1)/2 loses the half step)."""
    import sympy
    from engine.algebra import Algebra

    n = 0
    for f in fns:
        if f.body is None or len(f.params) != 6:
            continue
        alg = Algebra(f, names=True)
        for m in f.walk():
            if not (m.k == "CompoundAssignOperator" and m.op == "+=" and key(m.c[0].strip()) == "this.azimuthal_angle_offset"):
                continue
            e = alg.expr(m.c[1])
            # members this constructor has assigned before are replaced by what they were given
            for w in f.walk():
                if w.k == "BinaryOperator" and w.op == "=" and len(w.c) == 2 and w.c[0].strip().k == "MemberExpr" and key(w.c[0].strip()).startswith("this.") and w.line < m.line:
                    ms = [x for x in e.free_symbols if x.name == key(w.c[0].strip(), True)]
                    if ms:
                        e = e.subs(ms[0], alg.expr(w.c[1]))
            M = [x for x in e.free_symbols if "get_view_mashing_factor" in x.name]
            N = [x for x in e.free_symbols if "get_num_detectors_per_ring" in x.name]
            V = [x for x in e.free_symbols if x.name == (f.params[4].get("n") or "num_views")] if len(f.params) > 4 else []
            if len(M) != 1 or (len(N) != 1 and len(V) != 1):
                ctx.unrec(f.qn, "view-mashing offset: mashing factor / detectors per ring (or number of views) not found in `%s`" % e)
                continue
            intdiv = sympy.Function("intdiv")
            # N is even wherever this code runs (guarded by N % (2*views) == 0), and N/2 = views * M by the definition of the mashing factor
            v = V[0] if V else sympy.Symbol("num_views", real=True)
            e2 = e.subs(intdiv(N[0], 2), v * M[0]) if N else e
            q = sympy.simplify(e2 * 2 * v * M[0] / (M[0] - 1))
            ok = bool(q.is_number) and abs(float(q) - 3.141592653589793) < 1e-6
            ctx.ob("C12.d-mashed-view-centred", f.qn, "offset-increment", ok, m.where(), "offset increment = pi/(N/2) * (M-1)/2 with a real-valued (M-1)/2: the mashed view is centred on the M views it combines" if ok else "offset increment is `%s`, not pi/(N/2)*(M-1)/2 (real division): for even mashing factors get_phi is off by half an unmashed view step" % e)
            n += 1
    return n


def rule_f_generic_coordinates_from_one_line(ctx, fns):
    """Blocks/generic geometries: (s, phi, m, tantheta) of a bin must describe ONE line - the line through its two detectors.  The
    getters obtain it from get_LOR(lor, bin) (detector positions -> LOR in sinogram coordinates), so all four are components of the same
    conversion.  A getter that takes the detector positions directly must use their transaxial coordinates as well: m is the axial
    coordinate of the line's point closest to the scanner axis, z1 + t (z2 - z1) with t depending on x and y; a value that depends on the
    z components only is that point only for crystals at equal radii (seed C12-4: mean of the two z)."""
    RULE = "C12.f-generic-coordinates-from-one-line"
    n = 0
    seen = set()
    for f in sorted(fns, key=lambda g: bool(g.is_dependent)):
        if f.short not in ("get_s", "get_phi", "get_m", "get_tantheta") or f.body is None or not (f.cls or "").startswith("stir::ProjDataInfoGeneric") or len(f.params) != 1 or (f.file, f.body.line) in seen:
            continue
        seen.add((f.file, f.body.line))
        binp = f.params[0]["d"]
        defs = LocalDefs(f)
        rets = [m for m in f.walk() if m.k == "ReturnStmt" and m.c]
        if not rets:
            continue
        sl = []
        for r in rets:
            sl += data_slice(f, [r.c[0]], defs)
        # locals filled by a call that takes them by reference together with the bin
        filled = {}
        for c in f.calls():
            a = c.call_args()
            if any(x.strip().k == "DeclRefExpr" and x.strip().get("d") == binp for x in a):
                for x in a:
                    xs = x.strip()
                    if xs.k == "DeclRefExpr" and xs.get("dk") == "local":
                        filled.setdefault(xs.get("d"), []).append((c.callee or "").split("::")[-1])
        used = {m.get("d") for m in sl if m.k == "DeclRefExpr" and m.get("dk") == "local" and m.get("d") in filled}
        sources = sorted({s_ for d in used for s_ in filled[d]})
        other_getters = sorted({(c.callee or "").split("::")[-1] for c in f.calls() if (c.callee or "").split("::")[-1].startswith("get_") and (c.callee or "").split("::")[-1] not in ("get_LOR",) and any(x.strip().k == "DeclRefExpr" and x.strip().get("d") == binp for x in c.call_args()) and any(m is c for m in sl)})
        if sources == ["get_LOR"]:
            ok, det = True, "a component of the LOR that get_LOR(lor, bin) makes from the two detector positions"
        elif not sources and other_getters:
            ok, det = True, "defined through %s" % ", ".join(other_getters)
        elif sources and "get_LOR" not in sources:
            comps = {(m.callee or "").split("::")[-1] for m in sl if m.is_call() and (m.callee or "").split("::")[-1] in ("x", "y", "z") and m.call_object() is not None and m.call_object().strip().k == "DeclRefExpr" and m.call_object().strip().get("d") in used}
            if comps and comps <= {"z"}:
                ok, det = False, "computed from the detection points given by %s using their z components only: the axial coordinate of the line's point closest to the axis also depends on where the two crystals are transaxially (different radii in a block / crystal map), so this coordinate belongs to another line than s, phi and tantheta, which come from get_LOR" % ", ".join(sources)
            else:
                ctx.unrec(f.qn, "C12.f: coordinate computed from %s, not from get_LOR - cannot tell whether it is the same line" % ", ".join(sources))
                continue
        else:
            ctx.unrec(f.qn, "C12.f: source of the returned coordinate not recognised (%s)" % (sources or other_getters))
            continue
        ctx.ob(RULE, f.qn, "source-of-" + f.short[4:], ok, f.where(), det)
        n += 1
    return n


def rule_g_swapped_flag_records_the_exchange(ctx, fns):
    """get_sino_coords brings (phi, beta) of a LOR into their standard ranges; in some branches that means exchanging the end points
    (z1 <- p2.z, z2 <- p1.z).  The `swapped` flag is what keeps the direction of the LOR (the sign of the TOF bin, and the order of the
    end points when converting back): in every branch it must be true exactly when z1 is taken from the second point (F77)."""
    RULE = "C12.g-swapped-flag-records-the-exchange"
    n = 0
    seen = set()
    for f in sorted(fns, key=lambda g: bool(g.is_dependent)):
        if f.short != "get_sino_coords" or f.body is None or (f.file, f.body.line) in seen or len(f.params) < 6:
            continue
        seen.add((f.file, f.body.line))
        z1, z2, sw, cyl = f.params[0]["d"], f.params[1]["d"], f.params[4]["d"], f.params[5]["d"]
        k_ = 0
        for blk in f.walk():
            if blk.k != "CompoundStmt":
                continue
            asg = {}
            for st in blk.c:
                st_ = st.strip()
                if st_.k in ("BinaryOperator", "CXXOperatorCallExpr") and st_.op == "=" and len(st_.c) >= 2 and st_.c[0].strip().k == "DeclRefExpr":
                    asg[st_.c[0].strip().get("d")] = st_.c[1].strip()
            if sw not in asg:
                continue
            if z1 not in asg or z2 not in asg:
                ctx.unrec(f.qn, "C12.g: branch at line %d sets the flag without assigning z1 and z2 next to it" % blk.line)
                continue
            k1, k2 = key(asg[z1], True), key(asg[z2], True)
            if "p1()" in k1 and "p2()" in k2:
                exchanged = False
            elif "p2()" in k1 and "p1()" in k2:
                exchanged = True
            else:
                ctx.unrec(f.qn, "C12.g: z1/z2 of the branch at line %d are not taken from p1()/p2()" % blk.line)
                continue
            flag = key(asg[sw])
            if flag not in ("true", "false"):
                ctx.unrec(f.qn, "C12.g: flag of the branch at line %d is not a literal" % blk.line)
                continue
            ok = (flag == "true") == exchanged
            ctx.ob(RULE, f.qn.split("<")[0], "branch#%d" % k_, ok, blk.where(), "end points %s, swapped = %s" % ("exchanged" if exchanged else "kept", flag) if ok else "this branch %s the end points (z1 = %s) but sets swapped = %s: converting the sinogram coordinates back returns the end points in the other order, and the TOF bin gets the other sign" % ("exchanges" if exchanged else "keeps", k1[:40], flag))
            k_ += 1
            n += 1
    return n


def rule_h_detector_exchange_compensated(ctx):
    """`Coordinates are antisymmetric ...` / the TOF part: find_cartesian_coordinates_given_scanner_coordinates brings the detector pair
    into the order of the look-up table.  In the branch that EXCHANGES the two detectors the direction along the line is reversed, so
    what decides the final exchange of the two points must have been changed in that branch (and only there): a final test on the
    unchanged timing position gives opposite TOF bins the same ordered pair of points for half of the detector pairs (seed C12-5)."""
    RULE = "C12.h-detector-exchange-compensated"
    u = ctx.ex.get(Request(B + "ProjDataInfoCylindricalNoArcCorr.cxx", fn=["stir::ProjDataInfoCylindricalNoArcCorr::find_cartesian_coordinates_given_scanner_coordinates"]))
    if u is None:
        return
    fs = [f for f in u.functions if f.body is not None]
    if not fs:
        ctx.fail_broken("anchor find_cartesian_coordinates_given_scanner_coordinates not found")
        return
    f = fs[0]
    pk = {"v%d" % p["d"]: p.get("n") or p.get("name") for p in f.params}
    # the two detector-number parameters: int parameters that are copied into locals in BOTH branches of one if, crosswise
    ex = None
    for m in f.walk():
        if m.k != "IfStmt" or len(m.c) < 3:
            continue
        def copies(branch):
            out = {}
            for a in branch.walk():
                if a.k == "BinaryOperator" and a.op == "=" and a.c[0].strip().k == "DeclRefExpr" and key(a.c[1].strip()) in pk:
                    out[key(a.c[0].strip())] = key(a.c[1].strip())
            return out
        c1, c2 = copies(m.c[1]), copies(m.c[2])
        common = [l for l in c1 if l in c2 and c1[l] != c2[l]]
        if len(common) >= 2:
            ex = (m, c1, c2, common)
            break
    swaps = [c for c in f.calls() if (c.callee or "").split("::")[-1] == "swap" and all(key(a.strip()) in pk for a in c.call_args())]
    if ex is None or not swaps:
        ctx.unrec(f.qn, "C12.h: the branch that exchanges the detectors / the final exchange of the two points was not recognised")
        return
    m, c1, c2, common = ex
    guards = [a for a in swaps[-1].ancestors() if a.k == "IfStmt"]
    if not guards:
        ctx.unrec(f.qn, "C12.h: the exchange of the two points is not conditional")
        return
    cond_locals = {x.get("d") for x in guards[0].c[0].walk() if x.k == "DeclRefExpr" and x.get("dk") == "local"}
    from engine.tree import written_lvalues

    def written_in(branch):
        return {root_of_lvalue(e) for a in branch.walk() for e in written_lvalues(a)}

    w1, w2 = written_in(m.c[1]), written_in(m.c[2])
    one_sided = {d for d in cond_locals if ("v%d" % d in w1) != ("v%d" % d in w2)}
    ok = bool(one_sided)
    ctx.ob(RULE, f.qn, "final-point-order", ok, guards[0].where(), "the test that orders the two points reads a local changed in exactly one branch of the detector exchange (%s)" % m.where() if ok else "the two points are ordered by `%s`, which the branch that exchanges the detectors (%s) does not change: for the detector pairs stored the other way round in the table a negative TOF bin gets the point order of the positive one" % (key(guards[0].c[0], True), m.where()))


def run(ctx):
    ctx.explanation = (
        "Decides structural clauses only: (a) in every get_bin(LOR) implementation (arc-corrected, non-arc-corrected cylindrical, generic, "
        "blocks-on-cylindrical) a bin coordinate is never modified after its range test on a path to the successful return, and a "
        "coordinate that is computed there is range-tested before the bin is returned as found; (b) where a computed view beyond the last "
        "view is folded back, the tangential position is negated and the ring difference is taken with exchanged end points under the same "
        "flag; (c) by closed-form algebra, arc-corrected get_s is tangential position * bin_size (uniform sampling, odd), non-arc-corrected "
        "get_s is odd in the tangential position, get_phi is affine in the view with slope azimuthal_angle_sampling, get_m is affine in the "
        "axial position with the segment's axial sampling as slope, get_tantheta is odd in the ring difference and even in s. NOT decided: "
        "that get_bin(get_LOR(bin)) returns the same or a neighbouring bin, agreement of coordinates with detector positions, TOF bin "
        "boundaries, arc correction preserving integrals (floating-point geometry over runtime scanner parameters)."
    )
    reqs = requests()
    ctx.ex.prefetch(reqs)
    us = [ctx.ex.get(r) for r in reqs]
    if any(u is None for u in us):
        return
    seen = set()
    for u in us[: len(UNITS)]:
        for f in u.functions:
            if f.short == "get_bin" and f.body is not None and f.cfg_raw and f.params and "LOR" in f.params[0]["t"] and (f.file, f.line) not in seen:
                seen.add((f.file, f.line))
                rule_a(ctx, f)
                rule_b(ctx, f)
            elif f.short == "find_bin_given_cartesian_coordinates_of_detection" and f.body is not None and f.cfg_raw and (f.file, f.line) not in seen:
                seen.add((f.file, f.line))
                rule_a_out_parameter(ctx, f)
    accf = [f for u in us[len(UNITS) : -3] for f in u.functions]
    rule_c(ctx, accf)
    rule_e_obliqueness_is_dz_over_chord(ctx, us[-3].functions)
    ctx.require_count("C12.e-obliqueness-over-transaxial-chord", 2)
    rule_d_mashed_view_centred(ctx, us[-2].functions)
    rule_f_generic_coordinates_from_one_line(ctx, us[-1].functions)
    gu = ctx.ex.get(Request(B + "ProjDataInfoCylindricalNoArcCorr.cxx", fn=["stir::get_sino_coords"], files=["/repo/src/include/stir/LORCoordinates\\.inl"]))
    if gu is not None:
        rule_g_swapped_flag_records_the_exchange(ctx, gu.functions)
        ctx.require_count("C12.g-swapped-flag-records-the-exchange", 6)
    rule_h_detector_exchange_compensated(ctx)
    ctx.require_count("C12.h-detector-exchange-compensated", 1)
    ctx.require_count("C12.f-generic-coordinates-from-one-line", 4)
    ctx.require_count("C12.d-mashed-view-centred", 1)
    ctx.require_count("C12.a-range-test-after-last-modification", 9)
    ctx.require_count("C12.b-view-wrap-flips-all", 1)
    ctx.require_count("C12.c-coordinate-symmetries", 6)
