"""C15 - rebinning and resampling.  Only structural clauses are decided (conservation of sums and positions is numerical):

 SSRB(ProjData& out, const ProjData& in, do_norm)
 a  every output sinogram starts empty, ACCUMULATES (+=) input sinograms and is stored once: fresh get_empty_sinogram(out_bin)
    before the input loops of each output (axial position, TOF bin), `out[view / views_to_combine][tang] += in[view][tang]`,
    set_sinogram(out) after them - on every path
 b  the accumulation covers all input views (min..max), the tangential range common to input and output
    (max of the minima .. min of the maxima), all input axial positions of the candidate input segments and all input TOF bins;
    the output view is view / (in_views / out_views) (integer division) and a non-divisible view count is rejected with error()
 c  counts are only divided when normalisation was requested (`do_norm`), by contributing sinograms x views combined
 zoom_image(out, in, options)  (3D and 2D)
 d  each axis is interpolated with the zoom and offset of THAT axis: zoom_a = in_voxel_size.a / out_voxel_size.a,
    offset_a = (out_origin.a - in_origin.a) / in_voxel_size.a, overlap_interpolate(.., .., zoom_a, offset_a) along x, y, (z)
 e  the scaling switch covers every ZoomOptions::Scaling enumerator: preserve_sum returns without scaling, preserve_values scales by
    the product of all zooms, preserve_projections by the product of the zooms except x
 f  the in-place and parameter-taking variants delegate to the one implementation with their own arguments in order
"""
import re

import sympy

from engine.algebra import data_slice,  Algebra, LocalDefs
from engine.cfg import CFG
from engine.extract import Request
from engine.loops import describe
from engine.tree import key, root_of_lvalue, written_lvalues

B = "src/buildblock/"


def requests():
    return [
        Request(B + "SSRB.cxx", fn=["stir::SSRB"], files=["/repo/src/buildblock/SSRB.cxx"]),
        Request(B + "zoom.cxx", fn=["stir::zoom_image.*"], files=["/repo/src/buildblock/zoom.cxx"], enum=["stir::ZoomOptions::Scaling"]),
    ]


def _chain(n):
    n = n.strip()
    idx = []
    while n.k in ("CXXOperatorCallExpr", "ArraySubscriptExpr") and (n.k == "ArraySubscriptExpr" or n.op == "[]") and len(n.c) == 2:
        idx.insert(0, n.c[1].strip())
        n = n.c[0].strip()
    return n, idx


def rule_ssrb(ctx, f):
    fid = f.qn + "(ProjData&, const ProjData&, bool)"
    cfg = CFG(f)
    defs = LocalDefs(f)
    sub = {d: defs.single_def(d) for d in defs.decl}
    outp, inp = "v%d" % f.params[0]["d"], "v%d" % f.params[1]["d"]
    normp = "v%d" % f.params[2]["d"]
    K = lambda x: key(x, False, sub)
    # the transfer statement between two sinogram elements (it has to be an accumulation, checked below)
    accs = [m for m in f.walk() if m.k in ("CompoundAssignOperator", "CXXOperatorCallExpr", "BinaryOperator") and m.op in ("+=", "=", "-=", "*=") and len(m.c) == 2 and len(_chain(m.c[0])[1]) == 2 and len(_chain(m.c[1])[1]) == 2]
    if len(accs) != 1:
        ctx.unrec(fid, "expected exactly one `out_sino[..][..] += in_sino[..][..]`, found %d" % len(accs))
        return
    a = accs[0]
    oroot, oidx = _chain(a.c[0])
    iroot, iidx = _chain(a.c[1])
    osd, isd = oroot.get("d"), iroot.get("d")
    # ---- a
    sets = [c for c in f.calls() if (c.callee or "").endswith("::set_sinogram") and c.c and key(c.c[0].strip()) == outp and key(c.call_args()[0].strip()) == "v%d" % osd]
    fresh = [m for m in f.walk() if m.k in ("BinaryOperator", "CXXOperatorCallExpr") and m.op == "=" and key(m.c[0].strip()) == "v%d" % osd and any(x.is_call() and (x.callee or "").endswith("::get_empty_sinogram") and x.c and key(x.c[0].strip()) == outp for x in m.c[1].walk())]
    loops = [lp for lp in a.ancestors() if lp.k == "ForStmt"]
    descs = {}
    for lp in loops:
        d = describe(lp, names=False)
        if d:
            descs[d["d"]] = (d, lp)
    # the output loop nest: loops whose bounds are taken from the output data; the fresh sinogram and the store belong to its body
    out_loops = [lp for lp in sets[0].ancestors() if lp.k == "ForStmt"] if len(sets) == 1 else []
    ok_a = len(sets) == 1 and len(fresh) >= 1 and a.op == "+="
    det = "%d set_sinogram(out_sino), %d fresh get_empty_sinogram assignments, transfer operator `%s`" % (len(sets), len(fresh), a.op)
    if ok_a:
        fr = [x for x in fresh if cfg.dominates(x, a)]
        inner_out = out_loops[0] if out_loops else None  # innermost loop driven by the output (axial positions)
        same_iter = inner_out is not None and any(any(y is x for y in inner_out.c[3].walk()) for x in fr) and any(y is sets[0] for y in inner_out.c[3].walk())
        # the store follows the accumulation on every path of that iteration; nothing else assigns the output sinogram in between
        after = cfg.must_pass_before_exit([fr[-1]], lambda x: x.i == sets[0].i) is None if fr else False
        ok_a = bool(fr) and same_iter and after and a.op == "+="
        det = "fresh empty sinogram per output (axial position, TOF bin), accumulation, then one set_sinogram - in the same iteration of the output loop" if ok_a else "the output sinogram is not (re)started empty / stored once per output position (fresh dominates=%s, same iteration=%s, store follows=%s)" % (bool(fr), same_iter, after)
    ctx.ob("C15.a-ssrb-accumulates-into-fresh-sinogram", fid, "fresh-accumulate-store", ok_a, a.where(), det)
    # ---- b
    vd = oidx[0]
    ok_view = False
    detv = "output view index is %s" % K(vd)
    if vd.k == "BinaryOperator" and vd.op == "/" and vd.type.replace("const ", "").strip() == "int":
        num, den = vd.c[0].strip(), vd.c[1].strip()
        ok_view = key(num) == key(iidx[0]) and K(den) == "(/ %s.get_num_views() %s.get_num_views())" % (inp, outp)
        detv = "out view = in view / (in_views / out_views)"
    ctx.ob("C15.b-ssrb-covers-all-input", fid, "view-mashing-index", ok_view, a.where(), detv if ok_view else "the output view of an input view is not in_view / (in_views / out_views): " + detv)
    divis = [m for m in f.walk() if m.k == "IfStmt" and ("(%% %s.get_num_views() %s.get_num_views())" % (inp, outp)) in key(m.c[0]) and any(x.is_call() and x.callee == "stir::error" for x in m.c[1].walk())]
    ctx.ob("C15.b-ssrb-covers-all-input", fid, "non-divisible-views-rejected", bool(divis), f.where(), "error() when the output view count does not divide the input view count" if divis else "a view count that is not divisible is not rejected")
    want = {
        "views": (key(iidx[0]), "%s.get_min_view_num()" % inp, "%s.get_max_view_num()" % inp),
        "tangential": (key(iidx[1]), ("std::max(%s.get_min_tangential_pos_num(),%s.get_min_tangential_pos_num())" % (inp, outp), "std::max(%s.get_min_tangential_pos_num(),%s.get_min_tangential_pos_num())" % (outp, inp)), ("std::min(%s.get_max_tangential_pos_num(),%s.get_max_tangential_pos_num())" % (inp, outp), "std::min(%s.get_max_tangential_pos_num(),%s.get_max_tangential_pos_num())" % (outp, inp))),
    }
    for what, (vk, lo, hi) in want.items():
        dd = [d for d, _lp in descs.values() if "v%d" % d["d"] == vk]
        ok = False
        det = "no counting loop drives the %s index of the input" % what
        if dd:
            d = dd[0]
            los = lo if isinstance(lo, tuple) else (lo,)
            his = hi if isinstance(hi, tuple) else (hi,)
            ok = d["init"] in los and d["upper"] in his and d["step"] == "1"
            det = "%s loop: %s .. %s" % (what, d["init"], d["upper"])
        ctx.ob("C15.b-ssrb-covers-all-input", fid, "all-%s" % what, ok, a.where(), det)
    # input sinogram: fetched for the bin built from the (segment, axial, TOF) loop variables, loops over the whole input ranges
    gets = [m for m in f.walk() if m.k in ("BinaryOperator", "CXXOperatorCallExpr") and m.op == "=" and key(m.c[0].strip()) == "v%d" % isd and any(x.is_call() and (x.callee or "").endswith("::get_sinogram") and x.c and key(x.c[0].strip()) == inp for x in m.c[1].walk()) and cfg.dominates(m, a)]
    ok_in = False
    det = "the input sinogram is not read from the input data before the accumulation"
    if gets:
        call = [x for x in gets[-1].c[1].walk() if x.is_call() and (x.callee or "").endswith("::get_sinogram")][0]
        binarg = call.call_args()[0].strip()
        while binarg.k in ("CXXConstructExpr", "CXXTemporaryObjectExpr", "Cast") and len(binarg.c) == 1:
            binarg = binarg.c[0].strip()  # SinogramIndices(bin): the bin's own (segment, axial position, TOF) indices
        bd = binarg.get("d") if binarg.k == "DeclRefExpr" else None
        ctor = defs.decl.get(bd).c[0].strip() if bd in defs.decl and defs.decl[bd].c else None
        if ctor is not None and ctor.is_call() and len(ctor.c) >= 5:
            segv, axv, tofv = key(ctor.c[0].strip()), key(ctor.c[2].strip()), key(ctor.c[4].strip())
            ax = [d for d, _lp in descs.values() if "v%d" % d["d"] == axv]
            tf = [d for d, _lp in descs.values() if "v%d" % d["d"] == tofv]
            ok_ax = bool(ax) and ax[0]["init"] == "%s.get_min_axial_pos_num(%s)" % (inp, segv) and ax[0]["upper"] == "%s.get_max_axial_pos_num(%s)" % (inp, segv) and ax[0]["step"] == "1"
            ok_tf = bool(tf) and tf[0]["init"] == "%s.get_min_tof_pos_num()" % inp and tf[0]["upper"] == "%s.get_max_tof_pos_num()" % inp and tf[0]["step"] == "1"
            ok_in = ok_ax and ok_tf
            det = "input sinogram = in.get_sinogram(Bin(segment, 0, axial, 0, TOF)) with axial and TOF running over the input's whole ranges" if ok_in else "input loops do not cover the input's axial (%s) / TOF (%s) range" % (ok_ax, ok_tf)
    ctx.ob("C15.b-ssrb-covers-all-input", fid, "all-axial-and-TOF", ok_in, a.where(), det)
    # ---- c
    divs = [m for m in f.walk() if m.k in ("CompoundAssignOperator", "CXXOperatorCallExpr") and m.op == "/=" and key(m.c[0].strip()) == "v%d" % osd]
    ok_c = True
    det = "no division of the output sinogram"
    for m in divs:
        facts = cfg.facts_at(m)
        under = any(k_ == normp and tv is True for k_, tv, _r in facts)
        if not under:
            ok_c = False
            det = "the output sinogram is divided at line %d although normalisation was not requested" % m.line
        else:
            det = "the output is divided only under do_norm"
    ctx.ob("C15.c-ssrb-normalises-only-on-request", fid, "division-under-do_norm", ok_c, (divs[0] if divs else a).where(), det)


AXES = ("x", "y", "z")


def rule_zoom(ctx, fns, enums):
    impl = [f for f in fns if f.short == "zoom_image" and len(f.params) == 3 and f.body is not None and "ZoomOptions" in f.params[2]["t"]]
    n = 0
    for f in impl:
        ndim = 3 if "Voxels" in f.params[0]["t"] else 2
        fid = "stir::zoom_image(%s)" % ("3D" if ndim == 3 else "2D")
        outp, inp = "v%d" % f.params[0]["d"], "v%d" % f.params[1]["d"]
        alg = Algebra(f, names=False)
        size = "get_voxel_size" if ndim == 3 else "get_pixel_size"

        def S(o, what, ax):
            return alg.sym("%s.%s().%s()" % (o, what, ax))

        calls = [c for c in f.calls() if (c.callee or "").split("::")[-1] == "overlap_interpolate" and len(c.call_args()) >= 4]
        ok = len(calls) == ndim
        det = "%d overlap_interpolate calls" % len(calls)
        if ok:
            # order of the calls: x first (innermost dimension), then y, then z
            for ax, c in zip(AXES[:ndim], calls):
                z = sympy.simplify(alg.expr(c.call_args()[2]) - S(inp, size, ax) / S(outp, size, ax))
                o = sympy.simplify(alg.expr(c.call_args()[3]) - (S(outp, "get_origin", ax) - S(inp, "get_origin", ax)) / S(inp, size, ax))
                if z != 0 or o != 0:
                    ok = False
                    det = "interpolation along %s uses zoom %s and offset %s" % (ax, alg.expr(c.call_args()[2]), alg.expr(c.call_args()[3]))
            if ok:
                det = "each axis is interpolated with zoom = in size / out size and offset = (out origin - in origin) / in size of that axis"
        ctx.ob("C15.d-zoom-per-axis", fid, "zoom-and-offset-per-axis", ok, f.where(), det)
        n += 1
        # the caller's output image is completely (re)defined: the interpolation that writes it assigns zero to the part that does not
        # overlap with the input (assign_rest_with_zeroes true, which is also the default); otherwise stale content of a re-used
        # destination survives and the sum is not the input's
        final = [c for c in calls if key(c.call_args()[0].strip()) == outp]
        okz = len(final) == 1
        detz = "%d interpolations write the output image" % len(final)
        if okz:
            a = final[0].call_args()
            if len(a) >= 5:
                v = alg.expr(a[4])
                okz = v == 1
                detz = "assign_rest_with_zeroes = %s" % key(a[4], True)
            else:
                detz = "assign_rest_with_zeroes defaulted (true)"
        ctx.ob("C15.d-zoom-per-axis", fid, "output-completely-defined", okz, (final[0] if final else f).where() if final else f.where(), "the interpolation into the caller's image zeroes what the input does not cover (%s)" % detz if okz else "the caller's output image keeps its old content outside the input's extent: %s" % detz)
        n += 1
        # ---- e: scaling switch
        sw = [m for m in f.walk() if m.k == "SwitchStmt"]
        en = [e for e in enums if e["qn"].endswith("ZoomOptions::Scaling")]
        if len(sw) != 1 or not en:
            ctx.unrec(fid, "expected one switch over the scaling option")
            continue
        names = {e["v"]: e["n"] for e in en[0]["enumerators"]}
        cases = {}
        cur = None
        for m in sw[0].walk():
            if m.k == "CaseStmt" and "cv" in m.d:
                cur = names.get(m.get("cv"), "?")
                cases.setdefault(cur, [])
            elif cur is not None and m.k in ("BinaryOperator", "ReturnStmt") and (m.k == "ReturnStmt" or m.op == "="):
                cases[cur].append(m)
        missing = sorted(set(names.values()) - set(cases))
        zoom = {ax: S(inp, size, ax) / S(outp, size, ax) for ax in AXES[:ndim]}
        want = {"preserve_values": sympy.prod(list(zoom.values())), "preserve_projections": sympy.prod([zoom[a] for a in AXES[1:ndim]])}
        ok = not missing
        det = []
        if missing:
            det.append("no case for %s" % missing)
        for nm, w in want.items():
            asg = [m for m in cases.get(nm, []) if m.k == "BinaryOperator"]
            if len(asg) != 1 or sympy.simplify(alg.expr(asg[0].c[1]) - w) != 0:
                ok = False
                det.append("%s scales by %s instead of %s" % (nm, alg.expr(asg[0].c[1]) if asg else "nothing", w))
        if not any(m.k == "ReturnStmt" for m in cases.get("preserve_sum", [])):
            ok = False
            det.append("preserve_sum does not return without scaling")
        # the scale variable is what the output is multiplied by afterwards
        muls = [m for m in f.walk() if m.k in ("CompoundAssignOperator", "CXXOperatorCallExpr") and m.op == "*=" and key(m.c[0].strip()) == outp]
        if len(muls) != 1:
            ok = False
            det.append("%d multiplications of the output image" % len(muls))
        ctx.ob("C15.e-zoom-scaling-options", fid, "switch", ok, sw[0].where(), "preserve_sum: unscaled; preserve_values: product of all zooms; preserve_projections: product of the zooms except x" if ok else "; ".join(det))
        n += 1
    # ---- f: variants delegate
    for f in fns:
        if f.body is None or f in impl:
            continue
        if f.short == "zoom_image_in_place":
            calls = [c for c in f.calls() if (c.callee or "") == "stir::zoom_image"]
            ok = len(calls) == 1 and [key(a.strip()) for a in calls[0].call_args()] == ["v%d" % p["d"] for p in f.params]
            asg = [m for m in f.walk() if m.k in ("BinaryOperator", "CXXOperatorCallExpr") and m.op == "=" and key(m.c[0].strip()) == "v%d" % f.params[0]["d"]]
            ctx.ob("C15.f-zoom-variants-delegate", "stir::zoom_image_in_place(" + f.sig[:40] + ")", "delegates", ok and len(asg) == 1, f.where(), "image = zoom_image(image, <own arguments in order>)" if ok and asg else "the in-place variant does not call zoom_image with its own arguments in order")
            n += 1
        elif f.short == "zoom_image" and len(f.params) == 5 and "CartesianCoordinate3D" in f.params[1]["t"]:
            cons = [c for c in f.calls() if (c.callee or "").endswith("construct_new_image_from_zoom_parameters")]
            dele = [c for c in f.calls() if (c.callee or "") == "stir::zoom_image" and len(c.call_args()) == 3]
            ok = len(cons) == 1 and [key(a.strip()) for a in cons[0].call_args()] == ["v%d" % p["d"] for p in f.params[:4]] and len(dele) == 1 and key(dele[0].call_args()[1].strip()) == "v%d" % f.params[0]["d"] and key(dele[0].call_args()[2].strip()) == "v%d" % f.params[4]["d"]
            ctx.ob("C15.f-zoom-variants-delegate", "stir::zoom_image(" + f.sig[:40] + ")", "delegates", ok, f.where(), "new image from the zoom parameters in order, then zoom_image(new, image, options)" if ok else "the parameter-taking variant does not build the target from its own parameters in order / does not delegate")
            n += 1
    return n


def rule_ssrb_geometry(ctx, f):
    """SSRB(const ProjDataInfo&, n, ...) builds the output geometry.  Counts are only conserved if every output segment has room for
    ALL the input segments combined into it:
      g1  the input segments of output segment o are  o*n - n/2 .. o*n + n/2  (n odd is enforced)
      g2  the output segment's ring-difference range runs from the minimum ring difference of the first to the maximum of the last of them
      g3  its axial extent is computed from  min_m = min over ALL those input segments of m(first axial position)  and
          max_m = max over ALL of them of m(last axial position)  (reductions inside a loop over exactly that segment range), as
          (max_m - min_m) / axial sampling + 1 positions starting at 0."""
    from engine.loops import describe

    defs = LocalDefs(f)
    sub = {d: defs.single_def(d) for d in defs.decl}
    if len(f.params) < 2:
        ctx.unrec(f.qn, "expected SSRB(in_proj_data_info, num_segments_to_combine, ...)")
        return 0
    nk = "v%d" % f.params[1]["d"]
    fid = f.qn + "(ProjDataInfo)"
    loops = []
    for lp in f.walk():
        if lp.k == "ForStmt":
            d = describe(lp, names=False)
            if d:
                loops.append((d, lp))
    n = 0
    found = False
    for d2, l2 in loops:
        outer = [(d1, l1) for d1, l1 in loops if l1 is not l2 and any(a is l1 for a in l2.ancestors())]
        if len(outer) != 1:
            continue
        d1, l1 = outer[0]
        ok_ = "v%d" % d1["d"]
        from engine.loops import bounds as loop_bounds

        b2 = loop_bounds(l2, sub)
        if not b2:
            continue
        lo, hi = b2["init"], b2["upper"]
        want_lo = "(- (* %s %s) (/ %s 2))" % (ok_, nk, nk)
        want_hi = "(+ (* %s %s) (/ %s 2))" % (ok_, nk, nk)
        if "(* %s %s)" % (ok_, nk) not in lo and "(* %s %s)" % (nk, ok_) not in lo:
            continue
        found = True
        sk = "v%d" % d2["d"]
        g1 = lo.replace("(* %s %s)" % (nk, ok_), "(* %s %s)" % (ok_, nk)) == want_lo and hi.replace("(* %s %s)" % (nk, ok_), "(* %s %s)" % (ok_, nk)) == want_hi and str(d2.get("step")) == "1"
        ctx.ob("C15.g-ssrb-geometry-covers-combined-segments", fid, "combined-input-segments", g1, "%s:%d" % (f.file, l2.line), "input segments o*n - n/2 .. o*n + n/2 in steps of one" if g1 else "the loop over the combined input segments runs %s .. %s" % (lo, hi))
        n += 1
        # g2 ring differences
        smin = [c for c in l1.calls() if (c.callee or "").endswith("::set_min_ring_difference")]
        smax = [c for c in l1.calls() if (c.callee or "").endswith("::set_max_ring_difference")]
        g2 = len(smin) == 1 and len(smax) == 1
        if g2:
            a, b = [key(x.strip(), False, sub) for x in smin[0].call_args()], [key(x.strip(), False, sub) for x in smax[0].call_args()]
            g2 = re.fullmatch(r".*get_min_ring_difference\(%s\)" % re.escape(lo), a[0]) is not None and a[1] == ok_ and re.fullmatch(r".*get_max_ring_difference\(%s\)" % re.escape(hi), b[0]) is not None and b[1] == ok_
        ctx.ob("C15.g-ssrb-geometry-covers-combined-segments", fid, "ring-difference-range", g2, "%s:%d" % (f.file, l1.line), "output ring differences = [min of the first, max of the last combined input segment]" if g2 else "the output segment's ring-difference range is not [min ring difference of the first, max ring difference of the last combined input segment]")
        n += 1
        # g3 reductions
        red = {}
        for m in l2.c[3].walk():
            if m.k == "BinaryOperator" and m.op == "=" and m.c[0].strip().k == "DeclRefExpr" and m.c[1].strip().is_call() and (m.c[1].strip().callee or "") in ("std::min", "std::max"):
                tgt = key(m.c[0].strip())
                args = [key(x.strip(), False, sub) for x in m.c[1].strip().call_args()]
                other = [x for x in args if x != tgt]
                if len(args) == 2 and len(other) == 1:
                    which = m.c[1].strip().callee.split("::")[-1]
                    acc = "get_min_axial_pos_num" if which == "min" else "get_max_axial_pos_num"
                    good = re.fullmatch(r".*\.get_m\(stir::Bin::Bin\(%s,0,.*\.%s\(%s\),0\)\)" % (sk, acc, sk), other[0]) is not None
                    uncond = not any(a.k in ("IfStmt", "ConditionalOperator") and any(x is a for x in l2.c[3].walk()) for a in m.ancestors())
                    red[which] = (tgt, good and uncond, m)
        g3 = set(red) == {"min", "max"} and red["min"][1] and red["max"][1]
        det = "min_m / max_m are reduced over every combined input segment (m of its first / last axial position)"
        if g3:
            # initial values: +huge / -huge, and the extent set from them
            ini_ok = True
            for which, sign in (("min", 1), ("max", -1)):
                dd = red[which][2].c[0].strip().get("d")
                vdn = defs.decl.get(dd)
                v = None
                if vdn is not None and vdn.c:
                    e = vdn.c[0].strip()
                    neg = e.k == "UnaryOperator" and e.op == "-"
                    lit = e.c[0].strip() if neg else e
                    if lit.k in ("FloatingLiteral", "IntegerLiteral"):
                        v = -float(lit.get("v")) if neg else float(lit.get("v"))
                if v is None or sign * v < 1e30:
                    ini_ok = False
            smx = [c for c in l1.calls() if (c.callee or "").endswith("::set_max_axial_pos_num")]
            smn = [c for c in l1.calls() if (c.callee or "").endswith("::set_min_axial_pos_num")]
            ext_ok = False
            if len(smx) == 1 and len(smn) == 1:
                e = key(smx[0].call_args()[0].strip(), False, sub)
                mn, mx = red["min"][0], red["max"][0]
                ext_ok = re.search(r"round\(\(\+ \(/ \(- %s %s\) [^ ]*get_axial_sampling\(%s\)\) 1\)\)" % (mx, mn, ok_), e) is not None and e.startswith("(- ") and e.endswith(" 1)") and key(smn[0].call_args()[0].strip()) == "0" and key(smx[0].call_args()[1].strip()) == ok_
            g3 = ini_ok and ext_ok
            if not g3:
                det = "reductions start from +/-huge=%s, extent = round((max_m - min_m)/axial sampling + 1) - 1 from position 0 = %s" % (ini_ok, ext_ok)
        else:
            det = "the axial extent of an output segment is not computed from min/max of m over ALL combined input segments (reductions found: %s): the segment is too short for some of them and their end planes are dropped" % sorted(k for k, v in red.items() if v[1])
        ctx.ob("C15.g-ssrb-geometry-covers-combined-segments", fid, "axial-extent", g3, "%s:%d" % (f.file, l2.line), det)
        n += 1
        break
    if not found:
        ctx.ob("C15.g-ssrb-geometry-covers-combined-segments", fid, "combined-input-segments", False, f.where(), "no loop over the input segments o*n - n/2 .. o*n + n/2 combined into output segment o: the output segment's axial extent cannot cover them all")
        n += 1
    return n


def rule_h_per_plane_variant(ctx, zf):
    """The variant that zooms plane by plane must give what the one-call 3D zoom gives: (1) its shortcut `nothing to do` may only be
    taken when BOTH transaxial sizes of the input equal the requested size (the result is new_size x new_size); (2) the zoomed plane of
    input plane p is stored at plane  first plane of the new image + (p - first plane of the input)  - the new image numbers its planes
    from its own first plane (0), the input need not."""
    RULE = "C15.h-per-plane-variant-equals-3d"
    import sympy
    from engine.algebra import Algebra

    n = 0
    for f in zf:
        if f.body is None or f.short != "zoom_image" or not f.cfg_raw:
            continue
        sp = [c for c in f.calls() if (c.callee or "").endswith("::set_plane") and len(c.call_args()) == 2]
        if not sp:
            continue
        img = "v%d" % f.params[0]["d"]
        sizes = [p for p in f.params if re.fullmatch(r"(const )?int", (p.get("t") or "").strip())]
        # (1) the shortcut
        for g in f.walk():
            if g.k == "IfStmt" and len(g.c) >= 2 and any(r.k == "ReturnStmt" and r.c and key(r.c[0].strip()).endswith(img) or (r.k == "ReturnStmt" and img in key(r)) for r in g.c[1].walk()):
                ck = key(g.c[0])
                ok = all(("%s.%s()" % (img, acc)) in ck for acc in ("get_x_size", "get_y_size")) if sizes else True
                ctx.ob(RULE, f.qn + "(" + f.sig[:50] + ")", "shortcut", ok, g.where(), "the input is returned unchanged only if its x- and its y-size are the requested size" if ok else "the shortcut returns the input unchanged without comparing both its transaxial sizes with the requested size: a non-square input keeps its shape where the 3D zoom gives new_size x new_size")
                n += 1
        # (2) plane numbering
        alg = Algebra(f, names=True)
        for c in sp:
            loops = [a for a in c.ancestors() if a.k == "ForStmt"]
            if not loops:
                continue
            d = describe(loops[0], names=True)
            if d is None:
                ctx.unrec(f.qn, "loop over the planes not recognised")
                continue
            out = key(c.c[0].strip(), True)
            e = alg.expr(c.call_args()[1])
            pv = alg.sym(d["var"])
            diff = sympy.simplify(e - pv)
            want = alg.sym("%s.get_min_z()" % out) - alg.sym("%s.get_min_z()" % (f.params[0].get("n") or "image"))
            first_is_in_min = d["init"] == "%s.get_min_z()" % (f.params[0].get("n") or "image")
            ok = first_is_in_min and sympy.simplify(diff - want) == 0
            ctx.ob(RULE, f.qn + "(" + f.sig[:50] + ")", "plane-numbering", ok, c.where(), "plane p of the input goes to plane min_z(new) + (p - min_z(input))" if ok else "the zoomed plane of input plane p is stored at plane `%s` of the new image, whose planes start at its own min_z: for an input that does not start at the same plane number this writes outside the new image" % e)
            n += 1
    return n


def rule_j_axial_match_tolerance_scales(ctx, f):
    """SSRB(out, in) finds the output sinogram of an input sinogram by comparing their axial coordinates get_m(), single-precision
    numbers that grow with the length of the scanner and are computed along different routes.  The comparison |out_m - in_m| < T can
    find every partner on every scanner only if T scales with the geometry (the axial sampling): a bare literal is below the rounding
    error once the scanner is long enough, and the counts of the unmatched sinograms are lost (F76: 1e-4 mm, scanners > 1 m)."""
    RULE = "C15.j-axial-match-tolerance-scales-with-the-sampling"
    defs = LocalDefs(f)
    n = 0
    for m in f.walk():
        if not (m.k == "BinaryOperator" and m.op in ("<", "<=", ">", ">=")):
            continue
        l, r = m.c[0].strip(), m.c[1].strip()
        absl = l if (l.is_call() and (l.callee or "").split("::")[-1] in ("fabs", "abs")) else (r if (r.is_call() and (r.callee or "").split("::")[-1] in ("fabs", "abs")) else None)
        if absl is None:
            continue
        other = r if absl is l else l
        sl = data_slice(f, [absl], defs)
        gm = [x for x in sl if x.is_call() and (x.callee or "").split("::")[-1] == "get_m"]
        if len(gm) < 2:
            continue
        so = data_slice(f, [other], defs)
        scaled = [x for x in so if x.k == "CXXMemberCallExpr" and re.search(r"get_(sampling_in_m|axial_sampling|ring_spacing|sampling_in_t)$", x.callee or "")]
        ok = bool(scaled)
        ctx.ob(RULE, f.qn, "match@%d" % n, ok, m.where(), "tolerance `%s` depends on %s" % (key(other, True)[:60], (scaled[0].callee or "").split("::")[-1]) if ok else "axial coordinates are matched with the tolerance `%s`, which does not depend on the geometry: single-precision get_m() values computed along two routes differ by more than a fixed small number on a long enough scanner, the input sinogram then finds no output sinogram and its counts are lost" % key(other, True)[:60])
        n += 1
    return n


def run(ctx):
    ctx.explanation = (
        "Decides structural clauses only. SSRB(out, in, do_norm): (a) each output sinogram starts as a fresh empty sinogram, accumulates "
        "input sinograms with += and is stored once, in the same iteration of the output loop and on every path; (b) the accumulation runs "
        "over all input views, the tangential range common to both data sets, all axial positions and TOF bins of the input, with output "
        "view = input view / (in_views / out_views) and error() for a non-divisible view count; (c) the output is divided only when "
        "normalisation was requested. zoom_image (3D, 2D): (d) every axis is interpolated with the zoom and offset of that axis; (e) the "
        "scaling switch handles every ZoomOptions::Scaling enumerator with the documented factor; (f) the in-place and parameter-taking "
        "variants delegate with their own arguments in order. NOT decided: that get_m/get_k matching puts every input sinogram in the "
        "right output sinogram, count conservation, centre of mass, uniformity (numerical, over runtime data)."
    )
    reqs = requests()
    ctx.ex.prefetch(reqs)
    us = [ctx.ex.get(r) for r in reqs]
    if any(u is None for u in us):
        return
    ss = [f for f in us[0].functions if f.short == "SSRB" and f.body is not None and f.cfg_raw and len(f.params) == 3 and f.params[0]["t"].startswith(("ProjData &", "stir::ProjData &"))]
    if not ss:
        ctx.fail_broken("anchor SSRB(ProjData&, const ProjData&, bool) not found")
    else:
        rule_ssrb(ctx, ss[0])
        rule_j_axial_match_tolerance_scales(ctx, ss[0])
        ctx.require_count("C15.j-axial-match-tolerance-scales-with-the-sampling", 1)
    sg = [f for f in us[0].functions if f.short == "SSRB" and f.body is not None and f.cfg_raw and f.params and "ProjDataInfo &" in f.params[0]["t"] and "const" in f.params[0]["t"] and "ProjDataInfo" in (f.ret if hasattr(f, "ret") else "ProjDataInfo")]
    sg = [f for f in sg if len(f.params) >= 5]
    if not sg:
        ctx.fail_broken("anchor SSRB(const ProjDataInfo&, int, int, int, int, int) not found")
    else:
        rule_ssrb_geometry(ctx, sg[0])
        ctx.require_count("C15.g-ssrb-geometry-covers-combined-segments", 3)
        # i: SSRB(const ProjDataInfo&) makes the output geometry by clone() and setters (set_num_views, ...).  The clone carries the
        # lazily built detector tables of the input and their flags; the counts land where SSRB(out, in) computes (view / factor), so
        # the output geometry assigns pairs to the same bins only if those tables store nothing that the setters change - the clause
        # C01.e, evaluated here for the geometry classes because the rebinning property depends on it (seed C15-4)
        import rules.C01 as C01

        clones = [c for c in sg[0].calls() if (c.callee or "").split("::")[-1] in ("clone", "create_shared_clone")]
        setters = sorted({(c.callee or "").split("::")[-1] for c in sg[0].calls() if (c.callee or "").split("::")[-1].startswith("set_")})
        if not clones or not setters:
            ctx.unrec(sg[0].qn, "C15.i: the output geometry is not made by clone() and setters any more (%d clone calls, setters %s)" % (len(clones), setters))
        else:
            creqs = C01.requests()
            ctx.ex.prefetch(creqs)
            cus = [ctx.ex.get(r) for r in creqs]
            if all(x is not None for x in cus):
                C01.rule_e_tables_from_fixed_inputs(ctx, C01.uniq([f for u in cus for f in u.functions]), rule="C15.i-cloned-geometry-tables-not-stale")
                ctx.require_count("C15.i-cloned-geometry-tables-not-stale", 2)
    seen, zf = set(), []
    for f in us[1].functions:
        if (f.file, f.line) not in seen:
            seen.add((f.file, f.line))
            zf.append(f)
    rule_zoom(ctx, zf, us[1].enums)
    rule_h_per_plane_variant(ctx, zf)
    ctx.require_count("C15.h-per-plane-variant-equals-3d", 2)
    ctx.require_count("C15.a-ssrb-accumulates-into-fresh-sinogram", 1)
    ctx.require_count("C15.b-ssrb-covers-all-input", 5)
    ctx.require_count("C15.c-ssrb-normalises-only-on-request", 1)
    ctx.require_count("C15.d-zoom-per-axis", 4)
    ctx.require_count("C15.e-zoom-scaling-options", 2)
    ctx.require_count("C15.f-zoom-variants-delegate", 3)
