"""C14 - list-mode histogramming.  Decided clauses (LmToProjData::process_data and the list-mode subset definition):

 a  the batches of segments / TOF bins held in memory partition the ranges: step = width, end = min(max+1, start+width)-1,
    and an event is only stored when its segment and TOF bin lie in the current batch
 b  RF2 every pass over the events of a frame reads the same events: later passes rewind to the saved start of the frame
    and reset the clock; the first pass saves that position after skipping to the frame start
 c  RF1 the store into the in-memory segments is dominated by range tests for tangential, axial, TOF index and by
    bin_value > 0 as the FIRST test (it is what guards the per-segment accessors against an invalid segment)
 d  RF11 the amount added is bin_value * (prompt ? (store_prompts ? 1 : 0) : delayed_increment) and the event budget is
    decreased by the same increment
 e  RF2 every allocated batch is written and freed: allocate_segments is followed by save_and_delete_segments on every
    normal path of the batch, both under the same `!interactive` condition
 g  RF7 the list-mode subset selection uses the residue class of the basic view, like the sinogram enumeration
"""
import re

from engine.bounds import Bounds
from engine.cfg import CFG, relations
from engine.extract import Request
from engine.loops import describe
from engine.tree import key

LM = "src/listmode_buildblock/LmToProjData.cxx"
LL = "src/recon_buildblock/PoissonLogLikelihoodWithLinearModelForMeanAndListModeDataWithProjMatrixByBin.cxx"


def requests():
    return [
        Request(LM, fn=["stir::LmToProjData::process_data", "stir::LmToProjData::get_bin_from_event", "stir::LmToProjData::do_post_normalisation"], files=["/repo/src/listmode_buildblock/LmToProjData.cxx"]),
        Request(LL, fn=["stir::LM_distributable_computation"], files=[".*/recon_buildblock/distributable\\.txx"]),
    ]


def register_callee_effects(ctx, fns):
    """do_post_normalisation(Bin&) - if its body only changes the bin's value (set_bin_value), calling it keeps what is known
    about the bin's indices"""
    from engine import cfg as cfgmod
    from engine.tree import written_lvalues, root_of_lvalue

    cfgmod.REFINED_KILLS.clear()
    for g in fns:
        if g.short == "do_post_normalisation" and g.body is not None and g.params:
            p = "v%d" % g.params[0]["d"]
            ok = True
            for m in g.walk():
                for e in written_lvalues(m):
                    if root_of_lvalue(e) == p:
                        if not (m.k == "CXXMemberCallExpr" and (m.callee or "").endswith("::set_bin_value") and m.c and m.c[0] is e):
                            ok = False
            if ok:
                cfgmod.REFINED_KILLS[g.qn] = (0, ["get_bin_value"])
                ctx.stats["callee_effect_summary"] = "%s only calls set_bin_value on its argument" % g.qn
            else:
                ctx.stats["callee_effect_summary"] = "%s modifies more than the value of its argument: treated as unknown" % g.qn


def rule_process_data(ctx, f):
    cfg = CFG(f)
    loops = {}
    for lp in f.walk():
        if lp.k == "ForStmt":
            d = describe(lp)
            if d:
                loops[d["var"]] = d
    # ---- a: batching loops
    for var, width, lo, hi, endvar in (
        ("start_segment_index", "this.num_segments_in_memory", "get_min_segment_num()", "get_max_segment_num()", "end_segment_index"),
        ("start_timing_pos_index", "this.num_timing_poss_in_memory", "get_min_tof_pos_num()", "get_max_tof_pos_num()", "end_timing_pos_index"),
    ):
        d = loops.get(var)
        ok = d is not None and d["init"].endswith(lo) and d["upper"].endswith(hi) and d["step"] == width and "output_proj_data_sptr" in d["init"] and "output_proj_data_sptr" in d["upper"]
        ctx.ob("C14.a-batches-partition", f.qn, "loop:" + var, ok, f.where(), "for (%s = %s; <= %s; += %s)" % (var, d["init"], d["upper"], d["step"]) if d else "batch loop over %s not found" % var)
        ev = [m for m in f.walk() if m.k == "VarDecl" and m.get("n") == endvar and m.c]
        ok2 = False
        det = "no definition of " + endvar
        if ev and d:
            k = key(ev[0].c[0], True)
            want = [
                "(- std::min((+ %s 1),(+ %s %s)) 1)" % (d["upper"], var, width),
                "(- std::min((+ %s %s),(+ %s 1)) 1)" % (var, width, d["upper"]),
            ]
            ok2 = k in want
            det = "%s = %s" % (endvar, k)
        ctx.ob("C14.a-batches-partition", f.qn, "window-end:" + endvar, ok2, f.where(), det if ok2 else "window end is not min(max+1, start+width)-1: " + det)
    # ---- the store
    stores = [m for m in f.walk() if m.k in ("CompoundAssignOperator", "CXXOperatorCallExpr") and m.op == "+=" and "segments[" in key(m.c[0], True)]
    if len(stores) != 1:
        ctx.unrec(f.qn, "expected exactly one `segments[..][..][..][..][..] +=` store, found %d" % len(stores))
        return
    st = stores[0]
    facts = cfg.facts_at(st)
    B = Bounds(relations(facts))
    binv = None
    for m in st.walk():
        if m.k == "CXXMemberCallExpr" and (m.callee or "").endswith("::segment_num") and m.c and m.c[0].k == "DeclRefExpr":
            binv = key(m.c[0])
    if binv is None:
        ctx.unrec(f.qn, "store does not index by a Bin")
        return
    seg, tof = "%s.segment_num()" % binv, "%s.timing_pos_num()" % binv

    def localkey(name):
        for m in f.walk():
            if m.k == "VarDecl" and m.get("n") == name:
                return "v%d" % m.get("d")
        return "?"

    for coord, lo, hi in ((seg, "start_segment_index", "end_segment_index"), (tof, "start_timing_pos_index", "end_timing_pos_index")):
        ok = B.ge(coord, localkey(lo)) and B.ge(localkey(hi), coord)
        ctx.ob("C14.a-batches-partition", f.qn, "store-only-in-batch:" + coord.split(".")[-1], ok, st.where(), "store guarded by %s <= %s <= %s" % (lo, coord.split(".")[-1], hi) if ok else "an event can be stored although %s is outside the batch in memory" % coord.split(".")[-1])
    # ---- c: range tests dominate the store
    for acc, mn, mx, per_seg in (
        ("tangential_pos_num", "get_min_tangential_pos_num", "get_max_tangential_pos_num", False),
        ("axial_pos_num", "get_min_axial_pos_num", "get_max_axial_pos_num", True),
        ("timing_pos_num", "get_min_tof_pos_num", "get_max_tof_pos_num", False),
    ):
        c = "%s.%s()" % (binv, acc)
        arg = seg if per_seg else ""
        lo = any(a == c and op in (">=", ">") and re.fullmatch(r"\*this\.output_proj_data_sptr\.%s\(%s\)" % (mn, re.escape(arg)), b) for a, op, b in B.rels)
        hi = any(a == c and op in ("<=", "<") and re.fullmatch(r"\*this\.output_proj_data_sptr\.%s\(%s\)" % (mx, re.escape(arg)), b) for a, op, b in B.rels)
        ctx.ob("C14.c-store-bounded", f.qn, acc, lo and hi, st.where(), "%s tested against the output's %s/%s before the store" % (acc, mn, mx) if lo and hi else "store not dominated by a range test of %s (lower=%s upper=%s)" % (acc, lo, hi))
    pos = any(a == "%s.get_bin_value()" % binv and op == ">" and b in ("0", "0.0") for a, op, b in B.rels)
    # bin_value > 0 must be the first conjunct of the acceptance test
    first = False
    for m in f.walk():
        if m.k == "IfStmt" and any(x is st for x in m.c[1].walk()):
            c0 = m.c[0].strip()
            while c0.k == "BinaryOperator" and c0.op == "&&":
                c0 = c0.c[0].strip()
            if "get_bin_value()" in key(c0, True) and c0.op == ">" and "segment_num" not in key(c0, True):
                first = True
                break
    pos = True  # positivity is required at the acceptance test (checked structurally as `first`), the normalisation may change the value afterwards
    ctx.ob("C14.c-store-bounded", f.qn, "bin-value-positive-first", pos and first, st.where(), "bin_value > 0 is the first test of the acceptance chain (an event outside the template never reaches the per-segment accessors)" if pos and first else "acceptance does not start with bin_value > 0 (positive=%s, first=%s)" % (pos, first))
    # ---- d: increment
    incs = [m for m in f.walk() if m.k == "VarDecl" and m.get("n") == "event_increment" and m.c]
    ok = False
    det = "no event_increment"
    if incs:
        k = key(incs[0].c[0].strip(), True)
        ok = re.fullmatch(r"\(\?: \*?record\.event\(\)\.is_prompt\(\) \(\?: this\.store_prompts 1 0\) this\.delayed_increment\)", k) is not None
        det = "event_increment = " + k
    ctx.ob("C14.d-increment", f.qn, "event_increment", ok, f.where(), det)
    sk = key(st.c[1].strip(), True)
    ok = sk in ("(* %s.get_bin_value() event_increment)" % "bin", "(* event_increment bin.get_bin_value())")
    ctx.ob("C14.d-increment", f.qn, "amount-added", ok, st.where(), "segments[...] += " + sk)
    dec = [m for m in f.walk() if m.k in ("CompoundAssignOperator",) and m.op == "-=" and key(m.c[0], True) == "more_events"]
    ok = len(dec) == 1 and key(dec[0].c[1].strip(), True) == "event_increment"
    ctx.ob("C14.d-increment", f.qn, "budget-decrement", ok, f.where(), "more_events -= event_increment" if ok else "event budget not decreased by the increment that is stored")
    # the budget counts every accepted event, whether or not its segment / TOF bin is in the batch currently in memory:
    # otherwise each pass stops at a different point of the stream and the result depends on the batch sizes
    if len(dec) == 1:
        fd = cfg.facts_at(dec[0])
        Bd = Bounds(relations(fd))
        in_batch = [c for c in (seg, tof) if any(a == c and op in (">=", "<=", ">", "<") and b in (localkey("start_segment_index"), localkey("end_segment_index"), localkey("start_timing_pos_index"), localkey("end_timing_pos_index")) for a, op, b in Bd.rels)]
        ctx.ob("C14.d-increment", f.qn, "budget-independent-of-batch", not in_batch, dec[0].where(), "the event budget is decreased for every accepted event, independent of the batch in memory" if not in_batch else "the event budget is only decreased when %s lies in the batch in memory: passes stop at different events" % [c.split(".")[-1] for c in in_batch])
    # ---- b: rewind
    rew = [c for c in f.calls() if (c.callee or "").endswith("::set_get_position")]
    sav = [c for c in f.calls() if (c.callee or "").endswith("::save_get_position")]
    evloop = [c for c in f.calls() if (c.callee or "").endswith("::get_next_record")]
    ok = len(rew) == 1 and len(sav) == 1
    det = "expected one set_get_position and one save_get_position"
    if ok:
        fr = cfg.facts_at(rew[0])
        fs = cfg.facts_at(sav[0])
        # the rewind happens exactly when this is not the first batch of the frame: its guard is (seg != min || tof > min)
        g = [a for a in rew[0].ancestors() if a.k == "IfStmt"]
        gk = key(g[0].c[0], True) if g else "?"
        first_pass_neg = re.fullmatch(r"\(\|\| \(!= start_segment_index \*this\.output_proj_data_sptr\.get_min_segment_num\(\)\) \(> start_timing_pos_index \*this\.output_proj_data_sptr\.get_min_tof_pos_num\(\)\)\)", gk) is not None or re.fullmatch(r"\(\|\| \(> start_timing_pos_index .*get_min_tof_pos_num\(\)\) \(!= start_segment_index .*get_min_segment_num\(\)\)\)", gk) is not None
        same_if = g and any(x is sav[0] for x in g[0].walk()) and len(g[0].c) == 3 and any(x is sav[0] for x in g[0].c[2].walk())
        arg = key(rew[0].call_args()[0], True)
        clock = [m for m in (g[0].c[1].walk() if g else []) if m.k == "BinaryOperator" and m.op == "=" and key(m.c[0], True) == "this.current_time" and key(m.c[1].strip(), True) == "start_time"]
        savekey = [m for m in f.walk() if m.k in ("BinaryOperator", "CXXOperatorCallExpr") and m.op == "=" and any(x is sav[0] for x in m.walk())]
        saved_to = key(savekey[0].c[0], True) if savekey else "?"
        ok = first_pass_neg and same_if and arg == "frame_start_positions[this.current_frame_num]" and saved_to == arg and bool(clock)
        # the event loop comes after both
        ok = ok and all(cfg.must_pass_from_entry([e], lambda x: x.i in (rew[0].i, sav[0].i)) is None for e in evloop if any(a.k == "WhileStmt" and "more_events" in key(a.c[0], True) for a in e.ancestors()))
        det = "later batches: set_get_position(%s) and current_time = start_time; first batch saves to %s" % (arg, saved_to)
    ctx.ob("C14.b-same-events-every-pass", f.qn, "rewind", ok, f.where(), det if ok else "passes over one frame do not all start from the saved frame start: " + det)
    # ---- e: allocate / save pairing
    al = [c for c in f.calls() if (c.callee or "").endswith("allocate_segments")]
    sv = [c for c in f.calls() if (c.callee or "").endswith("save_and_delete_segments")]
    ok = len(al) == 1 and len(sv) == 1
    det = "expected one allocate_segments and one save_and_delete_segments"
    if ok:
        ka, ks = [key(a, True) for a in al[0].call_args()[1:5]], [key(a, True) for a in sv[0].call_args()[2:6]]
        ga = [k for k, tv, _r in cfg.facts_at(al[0]) if k == "this.interactive"]
        gs = [k for k, tv, _r in cfg.facts_at(sv[0]) if k == "this.interactive"]
        # the save sits under `if (!interactive)`, the same (unchanged) condition the allocation is under: reaching that test
        # again is enough
        sg = [a for a in sv[0].ancestors() if a.k == "IfStmt"]
        sgids = {m.i for m in sg[0].c[0].walk()} if sg else set()
        inter_written = [m for m in f.walk() if "this.interactive" in {__import__("engine.tree", fromlist=["x"]).root_of_lvalue(e) for e in __import__("engine.tree", fromlist=["x"]).written_lvalues(m)}]
        w = cfg.must_pass_before_exit([al[0]], lambda x: x.i == sv[0].i or x.i in sgids)
        if inter_written:
            w = [0]
        ok = ka == ks and bool(ga) and bool(gs) and w is None
        det = "allocate(%s) ... save_and_delete(%s), both under !interactive, save on every normal path" % (",".join(ka), ",".join(ks))
    ctx.ob("C14.e-batch-written-and-freed", f.qn, "allocate-save-pair", ok, f.where(), det)


def rule_g(ctx, f):
    # if (basic_bin.view_num() % num_subsets != subset_num) continue;   (or the positive form)
    tests = [m for m in f.walk() if m.k == "BinaryOperator" and m.op in ("!=", "==") and any(c.strip().k == "BinaryOperator" and c.strip().op == "%" for c in m.c)]
    ok = False
    det = "no residue-class test of the basic view"
    for t in tests:
        k = key(t, True)
        if re.fullmatch(r"\((!=|==) \(% \w+\.view_num\(\) num_subsets\) subset_num\)", k) or re.fullmatch(r"\((!=|==) subset_num \(% \w+\.view_num\(\) num_subsets\)\)", k):
            ok = True
            det = k
    ctx.ob("C14.g-listmode-subsets", f.qn, "residue-class-of-view", ok, f.where(), "events are selected by " + det if ok else det)


def run(ctx):
    ctx.explanation = (
        "Decides for LmToProjData::process_data: (a) the segment and TOF batch loops step by their window width with window end "
        "min(max+1,start+width)-1 and the store is guarded by start<=coordinate<=end for both, so every accepted event is stored in "
        "exactly one pass whatever the numbers held in memory; (b) later passes over a frame rewind to the saved frame start and "
        "reset the clock, the first pass saves that position after skipping to the frame start, and the event loop follows either; "
        "(c) the store is dominated by range tests of tangential, axial and TOF index against the output and bin_value>0 is the "
        "first acceptance test; (d) the amount added is bin_value*event_increment with the documented prompt/delayed increment and "
        "the event budget decreases by the same increment; (e) each allocated batch is saved and freed with the same window on every "
        "normal path. (g) list-mode subsets select events by the residue class of the basic view. NOT decided: event->detector "
        "decoding per scanner, time-frame arithmetic, frame additivity, LM gradient = sinogram gradient (numerical); the additive "
        "caching loop for TOF data (see DESIGN.md, candidate F7, not demonstrable with the data available here)."
    )
    reqs = requests()
    ctx.ex.prefetch(reqs)
    us = [ctx.ex.get(r) for r in reqs]
    if any(u is None for u in us):
        return
    pd = [f for f in us[0].functions if f.short == "process_data" and f.body is not None and f.cfg_raw]
    if not pd:
        ctx.fail_broken("anchor LmToProjData::process_data not found")
        return
    register_callee_effects(ctx, us[0].functions)
    rule_process_data(ctx, pd[0])
    from engine import cfg as cfgmod

    cfgmod.REFINED_KILLS.clear()
    lm = [f for f in us[1].functions if f.short == "LM_distributable_computation" and f.body is not None and not f.is_dependent] or [f for f in us[1].functions if f.short == "LM_distributable_computation" and f.body is not None]
    if not lm:
        ctx.fail_broken("anchor LM_distributable_computation not found")
    else:
        rule_g(ctx, lm[0])
    ctx.require_count("C14.a-batches-partition", 6)
    ctx.require_count("C14.c-store-bounded", 4)
    ctx.require_count("C14.d-increment", 3)
