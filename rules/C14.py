"""C14 - list-mode histogramming.  Decided clauses (LmToProjData::process_data and the list-mode subset definition):

 a  the batches of segments / TOF bins held in memory partition the ranges: step = width, end = min(max+1, start+width)-1,
    and an event is only stored when its segment and TOF bin lie in the current batch
 b  RF2 every pass over the events of a frame reads the same events: later passes rewind to the saved start of the frame
    and reset the clock; the first pass saves that position after skipping to the frame start
 c  RF1 the store into the in-memory segments is dominated by range tests for tangential, axial, TOF index and by
    bin_value > 0 as the FIRST test (it is what guards the per-segment accessors against an invalid segment)
 d  RF11 the amount added is bin_value * (prompt ? (store_prompts ? 1 : 0) : delayed_increment) and the event budget is
    decreased by the same increment
 e  RF2 every allocated batch is written and freed: allocate_segments is followed by save_and_delete_segments on every
    normal path of the batch, both under the same `!interactive` condition
 g  RF7 the list-mode subset selection uses the residue class of the basic view, like the sinogram enumeration
"""
import re

from engine.bounds import Bounds
from engine.cfg import CFG, relations
from engine.extract import Request
from engine.loops import bounds as loop_bounds
from engine.loops import describe
from engine.algebra import LocalDefs
from engine.canon import decl_of, roles_for
from engine.tree import key, root_of_lvalue

LM = "src/listmode_buildblock/LmToProjData.cxx"
LL = "src/recon_buildblock/PoissonLogLikelihoodWithLinearModelForMeanAndListModeDataWithProjMatrixByBin.cxx"


def requests():
    return [
        Request(LM, fn=["stir::LmToProjData::process_data", "stir::LmToProjData::get_bin_from_event", "stir::LmToProjData::do_post_normalisation"], files=["/repo/src/listmode_buildblock/LmToProjData.cxx"]),
        Request(LL, fn=["stir::LM_distributable_computation"], files=[".*/recon_buildblock/distributable\\.txx"]),

        Request(LL, fn=["stir::PoissonLogLikelihoodWithLinearModelForMeanAndListModeDataWithProjMatrixByBin::read_listmode_batch"]),
        Request(LL, fn=["stir::PoissonLogLikelihoodWithLinearModelForMeanAndListModeData.*::.*"], files=["/repo/src/recon_buildblock/PoissonLogLikelihoodWithLinearModelForMeanAndListModeData.*\\.cxx", "/repo/src/include/stir/recon_buildblock/PoissonLogLikelihoodWithLinearModelForMeanAndListModeData.*\\.h"]),
        Request("src/recon_buildblock/PoissonLogLikelihoodWithLinearModelForMeanAndListModeData.cxx", fn=["stir::PoissonLogLikelihoodWithLinearModelForMeanAndListModeData::.*"], files=["/repo/src/recon_buildblock/PoissonLogLikelihoodWithLinearModelForMeanAndListModeData\\.cxx", "/repo/src/include/stir/recon_buildblock/PoissonLogLikelihoodWithLinearModelForMeanAndListModeData\\.h"]),
        Request(LM, fn=["stir::LmToProjData::.*"], files=["/repo/src/listmode_buildblock/LmToProjData.cxx"]),
    ]


def register_callee_effects(ctx, fns):
    """do_post_normalisation(Bin&) - if its body only changes the bin's value (set_bin_value), calling it keeps what is known
    about the bin's indices"""
    from engine import cfg as cfgmod
    from engine.tree import written_lvalues, root_of_lvalue

    cfgmod.REFINED_KILLS.clear()
    for g in fns:
        if g.short == "do_post_normalisation" and g.body is not None and g.params:
            p = "v%d" % g.params[0]["d"]
            ok = True
            for m in g.walk():
                for e in written_lvalues(m):
                    if root_of_lvalue(e) == p:
                        if not (m.k == "CXXMemberCallExpr" and (m.callee or "").endswith("::set_bin_value") and m.c and m.c[0] is e):
                            ok = False
            if ok:
                cfgmod.REFINED_KILLS[g.qn] = (0, ["get_bin_value"])
                ctx.stats["callee_effect_summary"] = "%s only calls set_bin_value on its argument" % g.qn
            else:
                ctx.stats["callee_effect_summary"] = "%s modifies more than the value of its argument: treated as unknown" % g.qn


def rule_process_data(ctx, f):
    """Roles are taken from the code, never from identifiers: allocate_segments(segments, tof_start, tof_end, seg_start, seg_end, ..)
    names the in-memory store and the batch window; the Bin is what indexes the store; the record is what get_next_record fills;
    the increment is the local factor of the amount stored; the budget is the variable the event loop runs on."""
    cfg = CFG(f)
    defs = LocalDefs(f)
    al0 = [c for c in f.calls() if (c.callee or "").endswith("allocate_segments")]
    if len(al0) != 1 or len(al0[0].call_args()) < 5 or any(decl_of(a) is None for a in al0[0].call_args()[:5]):
        ctx.unrec(f.qn, "expected one allocate_segments(segments, tof_start, tof_end, seg_start, seg_end, ...) call on plain variables")
        return
    A = [decl_of(a) for a in al0[0].call_args()[:5]]
    anchors = dict(zip(A, ["$segments", "$start_tof", "$end_tof", "$start_seg", "$end_seg"]))
    stores = [m for m in f.walk() if m.k in ("CompoundAssignOperator", "CXXOperatorCallExpr") and m.op == "+=" and root_of_lvalue(m.c[0]) == "v%d" % A[0]]
    if len(stores) != 1:
        ctx.unrec(f.qn, "expected exactly one `segments[..][..][..][..][..] +=` store, found %d" % len(stores))
        return
    st = stores[0]
    bind = None
    for m in st.walk():
        if m.k == "CXXMemberCallExpr" and (m.callee or "").endswith("::segment_num") and m.c and m.c[0].k == "DeclRefExpr":
            bind = m.c[0].get("d")
    if bind is None:
        ctx.unrec(f.qn, "store does not index by a Bin")
        return
    anchors[bind] = "$bin"
    binv = "v%d" % bind
    # the increment: the local factor of the amount stored; the budget: the variable of the enclosing event loop
    incd = None
    for x in st.c[1].walk():
        if x.k == "DeclRefExpr" and x.get("dk") == "local" and x.get("d") != bind:
            incd = x.get("d")
    evwhile = [a for a in st.ancestors() if a.k == "WhileStmt"]
    budd = None
    if evwhile:
        # the event budget is the local tested for truth by the loop condition (alone, or as a conjunct next to the frame-end test)
        stack, conj = [evwhile[0].c[0].strip()], []
        while stack:
            x = stack.pop()
            if x.k == "BinaryOperator" and x.op == "&&":
                stack += [x.c[0].strip(), x.c[1].strip()]
            else:
                conj.append(x)
        cands = [decl_of(x) for x in conj if x.k == "DeclRefExpr" and x.get("dk") == "local"]
        budd = cands[0] if len(cands) == 1 else None
    recs = [c for c in f.calls() if (c.callee or "").endswith("::get_next_record") and evwhile and any(a is evwhile[0] for a in c.ancestors())]
    recd = decl_of(recs[0].call_args()[0]) if recs else None
    if incd is not None:
        anchors[incd] = "$inc"
    if budd is not None:
        anchors[budd] = "$budget"
    if recd is not None:
        anchors[recd] = "$rec"
    roles = roles_for(f, anchors, defs)
    sub = {d: (None if d in anchors else defs.single_def(d)) for d in defs.decl}
    K = lambda x: key(x, roles, sub)
    loops = {}
    for lp in f.walk():
        if lp.k == "ForStmt":
            d = describe(lp, names=roles)
            if d:
                loops[d["d"]] = d
    # ---- a: batching loops
    for what, vd_, ed_, width, lo, hi in (
        ("segment", A[3], A[4], "this.num_segments_in_memory", "get_min_segment_num()", "get_max_segment_num()"),
        ("TOF", A[1], A[2], "this.num_timing_poss_in_memory", "get_min_tof_pos_num()", "get_max_tof_pos_num()"),
    ):
        d = loops.get(vd_)
        var = roles[vd_]
        ok = d is not None and d["init"] == "*this.output_proj_data_sptr." + lo and d["upper"] == "*this.output_proj_data_sptr." + hi and d["step"] == width
        ctx.ob("C14.a-batches-partition", f.qn, "loop:%s-batches" % what, ok, f.where(), "for (%s = %s; <= %s; += %s)" % (var, d["init"], d["upper"], d["step"]) if d else "batch loop over the %s window start not found" % what)
        ev = defs.decl.get(ed_)
        ok2 = False
        det = "no definition of the window end"
        if ev is not None and ev.c and d and not defs.writes.get("v%d" % ed_):
            k = K(ev.c[0])
            want = [
                "(- std::min((+ %s 1),(+ %s %s)) 1)" % (d["upper"], var, width),
                "(- std::min((+ %s %s),(+ %s 1)) 1)" % (var, width, d["upper"]),
                "(- std::min((+ %s 1),(+ %s %s)) 1)" % (d["upper"], width, var),
                "(- std::min((+ %s %s),(+ %s 1)) 1)" % (width, var, d["upper"]),
            ]
            ok2 = k in want
            det = "window end = %s" % k
        ctx.ob("C14.a-batches-partition", f.qn, "window-end:%s" % what, ok2, f.where(), det if ok2 else "window end is not min(max+1, start+width)-1: " + det)
    facts = cfg.facts_at(st)
    B = Bounds(relations(facts))
    seg, tof = "%s.segment_num()" % binv, "%s.timing_pos_num()" % binv

    def localkey(dd):
        return "v%d" % dd

    for coord, lo, hi in ((seg, A[3], A[4]), (tof, A[1], A[2])):
        ok = B.ge(coord, localkey(lo)) and B.ge(localkey(hi), coord)
        ctx.ob("C14.a-batches-partition", f.qn, "store-only-in-batch:" + coord.split(".")[-1], ok, st.where(), "store guarded by window start <= %s <= window end" % coord.split(".")[-1] if ok else "an event can be stored although %s is outside the batch in memory" % coord.split(".")[-1])
    # ---- c: range tests dominate the store
    for acc, mn, mx, per_seg in (
        ("tangential_pos_num", "get_min_tangential_pos_num", "get_max_tangential_pos_num", False),
        ("axial_pos_num", "get_min_axial_pos_num", "get_max_axial_pos_num", True),
        ("timing_pos_num", "get_min_tof_pos_num", "get_max_tof_pos_num", False),
    ):
        c = "%s.%s()" % (binv, acc)
        arg = seg if per_seg else ""
        lo = any(a == c and op in (">=", ">") and re.fullmatch(r"\*this\.output_proj_data_sptr\.%s\(%s\)" % (mn, re.escape(arg)), b) for a, op, b in B.rels)
        hi = any(a == c and op in ("<=", "<") and re.fullmatch(r"\*this\.output_proj_data_sptr\.%s\(%s\)" % (mx, re.escape(arg)), b) for a, op, b in B.rels)
        ctx.ob("C14.c-store-bounded", f.qn, acc, lo and hi, st.where(), "%s tested against the output's %s/%s before the store" % (acc, mn, mx) if lo and hi else "store not dominated by a range test of %s (lower=%s upper=%s)" % (acc, lo, hi))
    pos = any(a == "%s.get_bin_value()" % binv and op == ">" and b in ("0", "0.0") for a, op, b in B.rels)
    # bin_value > 0 must be the first conjunct of the acceptance test
    first = False
    for m in f.walk():
        if m.k == "IfStmt" and any(x is st for x in m.c[1].walk()):
            c0 = m.c[0].strip()
            while c0.k == "BinaryOperator" and c0.op == "&&":
                c0 = c0.c[0].strip()
            if c0.k == "BinaryOperator" and c0.op == ">" and key(c0.c[0].strip()) == binv + ".get_bin_value()" and key(c0.c[1].strip()) in ("0", "0.0"):
                first = True
                break
    ctx.ob("C14.c-store-bounded", f.qn, "bin-value-positive-first", first, st.where(), "bin_value > 0 is the first test of the acceptance chain (an event outside the template never reaches the per-segment accessors)" if first else "acceptance does not start with bin_value > 0")
    # ... and positivity still holds AT the store: whatever changes the value after the acceptance test (the post-normalisation marks
    # bins of too low efficiency with -1, `Event ignored`) is followed by another test (F68: -1 times the increment was added)
    ctx.ob("C14.c-store-bounded", f.qn, "bin-value-positive-at-the-store", pos, st.where(), "bin_value > 0 is known where the value is added to the sinogram" if pos else "the value added to the sinogram is not known to be positive at the store: a step after the acceptance test (the post-normalisation) can mark the event as ignored (value <= 0), and that value times the increment is then added all the same")
    # ---- d: increment
    ok = False
    det = "the amount stored has no local increment factor"
    if incd is not None and defs.decl.get(incd) is not None and defs.decl[incd].c and not defs.writes.get("v%d" % incd):
        k = K(defs.decl[incd].c[0].strip())
        ok = re.fullmatch(r"\(\?: \*?\$rec\.event\(\)\.is_prompt\(\) \(\?: this\.store_prompts 1 0\) this\.delayed_increment\)", k) is not None
        det = "event_increment = " + k
    ctx.ob("C14.d-increment", f.qn, "event_increment", ok, f.where(), det)
    sk = K(st.c[1].strip())
    ok = sk in ("(* $bin.get_bin_value() $inc)", "(* $inc $bin.get_bin_value())")
    ctx.ob("C14.d-increment", f.qn, "amount-added", ok, st.where(), "segments[...] += " + sk)
    dec = [m for m in f.walk() if m.k in ("CompoundAssignOperator",) and m.op == "-=" and budd is not None and key(m.c[0].strip()) == "v%d" % budd]
    ok = len(dec) == 1 and K(dec[0].c[1].strip()) == "$inc"
    ctx.ob("C14.d-increment", f.qn, "budget-decrement", ok, f.where(), "more_events -= event_increment" if ok else "event budget not decreased by the increment that is stored")
    # the budget counts every accepted event, whether or not its segment / TOF bin is in the batch currently in memory:
    # otherwise each pass stops at a different point of the stream and the result depends on the batch sizes
    if len(dec) == 1:
        fd = cfg.facts_at(dec[0])
        Bd = Bounds(relations(fd))
        win = {localkey(x) for x in A[1:5]}
        in_batch = [c for c in (seg, tof) if any(a == c and op in (">=", "<=", ">", "<") and b in win for a, op, b in Bd.rels)]
        ctx.ob("C14.d-increment", f.qn, "budget-independent-of-batch", not in_batch, dec[0].where(), "the event budget is decreased for every accepted event, independent of the batch in memory" if not in_batch else "the event budget is only decreased when %s lies in the batch in memory: passes stop at different events" % [c.split(".")[-1] for c in in_batch])
    # ---- b: rewind
    rew = [c for c in f.calls() if (c.callee or "").endswith("::set_get_position")]
    sav = [c for c in f.calls() if (c.callee or "").endswith("::save_get_position")]
    evloop = [c for c in f.calls() if (c.callee or "").endswith("::get_next_record")]
    ok = len(rew) == 1 and len(sav) == 1
    det = "expected one set_get_position and one save_get_position"
    if ok:
        fr = cfg.facts_at(rew[0])
        fs = cfg.facts_at(sav[0])
        # the rewind happens exactly when this is not the first batch of the frame: its guard is (seg != min || tof > min)
        g = [a for a in rew[0].ancestors() if a.k == "IfStmt"]
        gk = K(g[0].c[0]) if g else "?"
        first_pass_neg = re.fullmatch(r"\(\|\| \((!=|>) \$start_seg \*this\.output_proj_data_sptr\.get_min_segment_num\(\)\) \((!=|>) \$start_tof \*this\.output_proj_data_sptr\.get_min_tof_pos_num\(\)\)\)", gk) is not None or re.fullmatch(r"\(\|\| \((!=|>) \$start_tof \*this\.output_proj_data_sptr\.get_min_tof_pos_num\(\)\) \((!=|>) \$start_seg \*this\.output_proj_data_sptr\.get_min_segment_num\(\)\)\)", gk) is not None
        same_if = g and any(x is sav[0] for x in g[0].walk()) and len(g[0].c) == 3 and any(x is sav[0] for x in g[0].c[2].walk())
        arg = K(rew[0].call_args()[0])
        clock = [m for m in (g[0].c[1].walk() if g else []) if m.k == "BinaryOperator" and m.op == "=" and key(m.c[0]) == "this.current_time" and K(m.c[1].strip()) == "this.frame_defs.get_start_time(this.current_frame_num)"]
        savekey = [m for m in f.walk() if m.k in ("BinaryOperator", "CXXOperatorCallExpr") and m.op == "=" and any(x is sav[0] for x in m.walk())]
        saved_to = K(savekey[0].c[0]) if savekey else "?"
        # ... or (since the frame end is tested on entry, F91) the clock the first pass had when it saved the position: the rewind branch
        # restores current_time from E and the first-pass branch stores current_time in the same E after its skip-ahead
        restored = [m for m in (g[0].c[1].walk() if g else []) if m.k == "BinaryOperator" and m.op == "=" and key(m.c[0]) == "this.current_time"]
        kept = [m for m in (g[0].c[2].walk() if g and len(g[0].c) == 3 else []) if m.k in ("BinaryOperator", "CXXOperatorCallExpr") and m.op == "=" and key(m.c[-1].strip()) == "this.current_time"]
        saved_clock = bool(restored) and bool(kept) and all(any(K(r.c[1].strip()) == K((k_.c[0] if k_.k == "BinaryOperator" else k_.c[-2]).strip()) for k_ in kept) for r in restored) and all(K(r.c[1].strip()).endswith("[this.current_frame_num]") for r in restored)
        entry_tested = any(re.search(r"this\.current_time", K(x)) for x in [evwhile[0].c[0]]) if evwhile else False
        if restored and not clock and not saved_clock:
            ctx.unrec(f.qn, "C14.b: the clock set after the rewind (%s) is neither the frame start nor the clock kept at the save" % K(restored[0].c[1].strip()))
        if entry_tested and clock and not saved_clock:
            # with the frame end tested on entry the nominal start is not good enough: the first pass may find the frame already over
            clock = []
        ok = first_pass_neg and same_if and arg.endswith("[this.current_frame_num]") and saved_to == arg and (bool(clock) or saved_clock)
        # the event loop comes after both
        ok = ok and all(cfg.must_pass_from_entry([e], lambda x: x.i in (rew[0].i, sav[0].i)) is None for e in evloop if any(evwhile and a is evwhile[0] for a in e.ancestors()))
        det = "later batches: set_get_position(%s) and current_time = %s; first batch saves to %s" % (arg, "the clock kept at the save" if saved_clock else "start_time", saved_to)
    ctx.ob("C14.b-same-events-every-pass", f.qn, "rewind", ok, f.where(), det if ok else "passes over one frame do not all start from the saved frame start with the clock of the first pass: " + det)
    # every pass enters the event loop in the stream state the saved position stands for: no record is consumed between the save
    # (first pass) or the rewind (later passes) and the event loop - a skip-ahead after the save would not be repeated after the
    # rewind (the rewind sets the clock to the frame start), so later passes would re-read the events before the frame
    if len(rew) == 1 and len(sav) == 1 and evwhile and recs:
        main_ids = {m.i for m in evwhile[0].c[0].walk()} | {r.i for r in recs}
        other_reads = {c.i for c in evloop if c.i not in {r.i for r in recs}}
        for nm, call in (("after-save", sav[0]), ("after-rewind", rew[0])):
            p = cfg.pos.get(call.i)
            if p is None:
                ctx.unrec(f.qn, "save/rewind call not found in the flow graph")
                continue
            w = cfg.paths_avoiding([p], lambda x: x.i in main_ids or x.i in (sav[0].i, rew[0].i), target_pred=lambda x: x.i in other_reads, to_exit=False)
            ctx.ob("C14.b-same-events-every-pass", f.qn, "no-record-consumed-" + nm, w is None, call.where(), "the event loop is entered at the saved position: nothing is read in between" if w is None else "a record can be read between the %s and the event loop (blocks %s): the passes over a frame do not start at the same event" % (nm.split("-")[1], w))
        # the position saved is the frame start: the skip-ahead loop (reads while current_time < start_time) is completed before the save
        def cond_of(loop):
            return loop.c[0] if loop.k == "WhileStmt" else (loop.c[1] if len(loop.c) == 4 else None)

        skips = [w_ for w_ in f.walk() if w_.k in ("WhileStmt", "ForStmt") and w_ is not evwhile[0] and cond_of(w_) is not None and any(c.i in other_reads for c in w_.calls()) and re.search(r"\(< this\.current_time ", K(cond_of(w_)))]
        ok_skip = False
        if len(skips) == 1:
            els = [m for m in cond_of(skips[0]).walk() if m.i in cfg.pos]
            ok_skip = bool(els) and not any(a is skips[0] for a in sav[0].ancestors()) and any(cfg.dominates(e, sav[0]) for e in els)
        ctx.ob("C14.b-same-events-every-pass", f.qn, "skip-to-frame-start-before-save", ok_skip, sav[0].where(), "events before the frame start are skipped (while current_time < start_time) before the frame's start position is saved" if ok_skip else "the saved position is not preceded by the skip to the frame start: events before the frame are histogrammed into it")
    # ---- e: allocate / save pairing
    al = [c for c in f.calls() if (c.callee or "").endswith("allocate_segments")]
    sv = [c for c in f.calls() if (c.callee or "").endswith("save_and_delete_segments")]
    ok = len(al) == 1 and len(sv) == 1
    det = "expected one allocate_segments and one save_and_delete_segments"
    if ok:
        ka, ks = [K(a) for a in al[0].call_args()[1:5]], [K(a) for a in sv[0].call_args()[2:6]]
        ga = [k for k, tv, _r in cfg.facts_at(al[0]) if k == "this.interactive"]
        gs = [k for k, tv, _r in cfg.facts_at(sv[0]) if k == "this.interactive"]
        # the save sits under `if (!interactive)`, the same (unchanged) condition the allocation is under: reaching that test
        # again is enough
        sg = [a for a in sv[0].ancestors() if a.k == "IfStmt"]
        sgids = {m.i for m in sg[0].c[0].walk()} if sg else set()
        inter_written = [m for m in f.walk() if "this.interactive" in {__import__("engine.tree", fromlist=["x"]).root_of_lvalue(e) for e in __import__("engine.tree", fromlist=["x"]).written_lvalues(m)}]
        w = cfg.must_pass_before_exit([al[0]], lambda x: x.i == sv[0].i or x.i in sgids)
        if inter_written:
            w = [0]
        ok = ka == ks and bool(ga) and bool(gs) and w is None
        det = "allocate(%s) ... save_and_delete(%s), both under !interactive, save on every normal path" % (",".join(ka), ",".join(ks))
    ctx.ob("C14.e-batch-written-and-freed", f.qn, "allocate-save-pair", ok, f.where(), det)


def rule_g(ctx, f):
    # if (subset_num != basic_bin.view_num() % num_subsets) continue;   (or the positive form); subset_num / num_subsets are the two
    # int parameters that follow each other in this order (the interface shared with the sinogram-based computation)
    ints = [p for p in f.params if p["t"].replace("const ", "").strip() == "int"]
    pos = {p["d"]: i for i, p in enumerate(f.params)}
    tests = [m for m in f.walk() if m.k == "BinaryOperator" and m.op in ("!=", "==") and any(c.strip().k == "BinaryOperator" and c.strip().op == "%" for c in m.c)]
    ok = False
    det = "no residue-class test of the basic view"
    for t in tests:
        a, b = t.c[0].strip(), t.c[1].strip()
        if a.k == "BinaryOperator" and a.op == "%":
            a, b = b, a
        sd = decl_of(a)
        if sd is None or b.k != "BinaryOperator" or b.op != "%":
            continue
        nd = decl_of(b.c[1])
        vk = key(b.c[0].strip())
        if sd in pos and nd in pos and pos[nd] == pos[sd] + 1 and sd in {p["d"] for p in ints} and nd in {p["d"] for p in ints} and re.fullmatch(r"v\d+\.view_num\(\)", vk):
            # the bin tested is the basic bin of the event's bin (find_basic_bin applied to it unless already basic)
            bd = int(vk[1:].split(".")[0])
            fb = [c for c in f.calls() if (c.callee or "").endswith("::find_basic_bin") and decl_of(c.call_args()[0]) == bd]
            ok = bool(fb)
            det = key(t, True) if ok else "the view tested is not that of the basic bin (no find_basic_bin on it)"
    ctx.ob("C14.g-listmode-subsets", f.qn, "residue-class-of-view", ok, f.where(), "events are selected by " + det if ok else det)


def rule_h_local_images_reach_output(ctx, f):
    """LM_distributable_computation lets the call-back accumulate into per-thread images (a vector indexed by the thread number; one
    element without OpenMP).  Whatever the configuration, those images must be ADDED to *output_image_ptr after the event loop, all of
    them, on every path on which an output image was asked for - otherwise the list-mode gradient is lost (zero)."""
    cfg = CFG(f)
    outp = [p for p in f.params if "DiscretisedDensity" in p["t"] and "*" in p["t"] and "const" not in p["t"].split("*")[0]]
    cbs = [c for c in f.walk() if c.k in ("CallExpr", "CXXOperatorCallExpr") and c.call_args() and len(c.call_args()) >= 5 and any(a.k in ("ForStmt",) for a in c.ancestors())]
    # the call-back invocation: a call whose first argument dereferences an element of a local vector of image pointers
    loc = None
    for c in cbs:
        a0 = c.call_args()[0].strip() if c.k == "CallExpr" else (c.c[1].strip() if len(c.c) > 1 else None)
        if a0 is None:
            continue
        m = re.search(r"\*?\(?\*? ?(v\d+)\[", key(a0))
        if m and "shared_ptr<DiscretisedDensity" in " ".join((x.type or "") for x in a0.walk()):
            loc = (m.group(1), c)
            break
    if not outp or loc is None:
        ctx.unrec(f.qn, "output image parameter or the per-thread image vector handed to the call-back not recognised")
        return 0
    ok_ = "v%d" % outp[0]["d"]
    L, cb = loc
    evloop = [a for a in cb.ancestors() if a.k == "ForStmt"][-1]
    adds = [m for m in f.walk() if m.k in ("CompoundAssignOperator", "CXXOperatorCallExpr") and m.op == "+=" and len(m.c) >= 2 and key(m.c[-2].strip()) in ("*" + ok_, "(* %s)" % ok_) and L + "[" in key(m.c[-1].strip()) and m.i in cfg.pos]
    ok, det = False, "no statement adds the per-thread images to *output_image_ptr"
    if adds:
        a = adds[0]
        lp = [x for x in a.ancestors() if x.k == "ForStmt"]
        b = loop_bounds(lp[0], None) if lp else None
        whole = b is not None and b["init"] == "0" and re.search(r"%s\.size\(\)" % L, b["upper"]) is not None and str(b["step"]) == "1"
        after = not any(x is evloop for x in a.ancestors()) and a.line > evloop.line
        # reached on every path from the event loop to the exit on which an output image exists: the only guards allowed around it
        # are `output != NULL` and `element is not null`
        guards = [key(x.c[0].strip()) for x in a.ancestors() if x.k == "IfStmt"]
        def guard_ok(g):
            if g == ok_ or g.startswith("(!= %s " % ok_):
                return True  # output image requested
            return g.startswith("(! stir::is_null_ptr(%s[" % L)  # this thread filled something in

        okg = all(guard_ok(g) for g in guards)
        ok = whole and after and okg
        det = "after the event loop every per-thread image is added to *output_image_ptr" if ok else "the addition of the per-thread images is not a loop over all of them after the event loop under `output != NULL` only (whole=%s after=%s guards=%s)" % (whole, after, guards)
    ctx.ob("C14.h-accumulated-image-reaches-output", f.qn, "per-thread-images", ok, (adds[0] if adds else f).where(), det if ok else det + ": in this build configuration the image the call-back accumulated is dropped and the list-mode gradient is zero")
    return 1


def rule_i_additive_lookup_uses_event_coordinates(ctx, f):
    """The additive term cached for an event is read from the piece of the additive data selected by loop variables (segment, TOF
    bin): the assignment to the event's correction must be guarded by equality of EVERY such loop variable with the event's own
    coordinate, and the element is subscripted with the event's remaining coordinates."""
    n = 0
    for m in f.walk():
        if not (m.k in ("BinaryOperator", "CXXOperatorCallExpr") and m.op == "=" and len(m.c) >= 2):
            continue
        lhs = m.c[-2].strip()
        if not (lhs.k == "MemberExpr" and lhs.get("n") == "my_corr"):
            continue
        rhs = m.c[-1].strip()
        chain = _subscript_chain(rhs)
        if chain is None:
            continue
        base, idx = chain
        ev = key(lhs.c[0].strip()) if lhs.c else None
        # the piece: a local initialised from get_segment_by_*(loopvar, loopvar)
        vd = [x for x in f.walk() if x.k == "VarDecl" and x.get("d") == base.get("d")]
        sel = []
        if vd and vd[0].c:
            for c in vd[0].c[0].walk():
                if c.is_call() and re.search(r"get_segment_by_(view|sinogram)$", c.callee or ""):
                    sel = [a.strip() for a in c.call_args() if a.strip().k == "DeclRefExpr" and "int" in (a.strip().type or "")]
        if not sel or ev is None:
            continue
        conds = " ".join(key(a.c[0].strip()) for a in m.ancestors() if a.k == "IfStmt")
        want = {0: "segment_num", 1: "timing_pos_num"}
        missing = []
        for j, lv in enumerate(sel):
            acc = want.get(j)
            if acc is None:
                continue
            if not re.search(r"\(== %s\.my_bin\.%s\(\) %s\)|\(== %s %s\.my_bin\.%s\(\)\)" % (re.escape(ev), acc, key(lv), key(lv), re.escape(ev), acc), conds):
                missing.append(acc)
        coords = [key(x) for x in idx]
        inside = all(re.fullmatch(r"%s\.my_bin\.(view_num|axial_pos_num|tangential_pos_num)\(\)" % re.escape(ev), k_) for k_ in coords) and len(set(coords)) == 3
        ok = not missing and inside
        ctx.ob("C14.i-additive-term-of-the-event", f.qn, "cached-additive-term@%d" % n, ok, m.where(), "the additive term is read from the segment and TOF bin of the event, at its view / axial / tangential position" if ok else "the additive term of an event is read from a piece selected by loop variables that are not all compared with the event's own coordinates (missing: %s; element subscripts ok: %s): events get the value of another %s" % (", ".join(missing) or "-", inside, " / ".join(x.replace("_num", "").replace("timing_pos", "TOF bin") for x in missing) or "position"))
        n += 1
    return n


def rule_j_batches_continue_with_the_clock(ctx, f):
    """The cached list-mode objective reads the events of a frame in batches.  Batch 0 rewinds the stream (reset()) and starts its clock
    at the initial value; a later batch continues in the stream where the previous one stopped and must continue with the clock as
    well: on every path that reaches the reading loop WITHOUT the rewind, the clock variable (the local that is set from the time
    records and compared with the frame start to skip events) has been assigned from saved state - otherwise the events between the
    batch boundary and the next time record are judged with the initial clock and dropped when the frame starts after it."""
    cfg = CFG(f)
    clocks = [m for m in f.walk() if m.k == "BinaryOperator" and m.op == "=" and m.c[0].strip().k == "DeclRefExpr" and m.c[0].strip().get("dk") == "local" and "get_time_in_secs" in key(m.c[1].strip())]
    if len(clocks) != 1:
        ctx.unrec(f.qn, "clock variable (assigned from time records) not recognised")
        return 0
    T = clocks[0].c[0].strip().get("d")
    tk = "v%d" % T
    loop = [a for a in clocks[0].ancestors() if a.k in ("WhileStmt", "ForStmt", "DoStmt")]
    rewinds = [c for c in f.calls() if (c.callee or "").endswith("::reset") and "list_mode_data_sptr" in key(c.c[0], True) and c.i in cfg.pos]
    if not loop or not rewinds:
        ctx.unrec(f.qn, "reading loop or stream rewind not recognised")
        return 0
    lp = loop[-1]
    restores = [m for m in f.walk() if m.i in cfg.pos and m.k == "BinaryOperator" and m.op == "=" and key(m.c[0].strip()) == tk and not any(a is lp for a in m.ancestors()) and re.search(r"this\.", key(m.c[1].strip()))]
    rid, wid = {m.i for m in restores}, {c.i for c in rewinds}
    loop_ids = {m.i for m in lp.walk()}
    w = cfg.paths_avoiding([(cfg.entry, -1)], lambda x: x.i in rid or x.i in wid, target_pred=lambda x: x.i in loop_ids, to_exit=False)
    ok = w is None
    ctx.ob("C14.j-batches-continue-with-the-clock", f.qn, "clock-at-batch-start", ok, (restores[0] if restores else f).where(), "a batch either rewinds the stream or restores the clock from saved state before reading" if ok else "a path reaches the reading loop without rewinding the stream and without restoring the clock (blocks %s): a later batch judges its first events with the initial clock value and drops them when the frame starts later" % w)
    return 1


def rule_k_cache_follows_the_model(ctx, fns):
    """The list-mode objective caches, per event, the bin AND the additive term (for the frame, segment range and number of events
    asked for).  Its gradient uses that cache, so the cache has to follow the model: set_up() re-makes it whenever it decides to
    cache.  A path of set_up() that keeps an existing cache is sound only under member flags that EVERY public setter of something
    cache_listmode_file() reads clears (seed C14-5)."""
    from engine.tree import written_lvalues

    RULE = "C14.k-event-cache-follows-the-model"
    CLS = "stir::PoissonLogLikelihoodWithLinearModelForMeanAndListModeData"
    by = {}
    for f in sorted(fns, key=lambda g: bool(g.is_dependent)):
        if f.body is not None and (f.cls or "").startswith(CLS):
            by.setdefault((f.cls, f.short, len(f.params)), f)
    su = [f for (c, sh, _n), f in by.items() if sh == "set_up_before_sensitivity" and c.endswith("WithProjMatrixByBin") and f.cfg_raw]
    P = [f for (c, sh, _n), f in by.items() if sh == "cache_listmode_file" and c.endswith("WithProjMatrixByBin")]
    if not su or not P:
        ctx.fail_broken("C14.k: set_up_before_sensitivity / cache_listmode_file of the list-mode objective function not found")
        return 0
    su, P = su[0], P[0]
    cfg = CFG(su)
    cids = {c.i for c in su.calls() if (c.callee or "").endswith("::cache_listmode_file") and c.i in cfg.pos}
    marks = [m for m in su.walk() if m.k == "BinaryOperator" and m.op == "=" and key(m.c[0].strip()) == "this.cache_lm_file" and key(m.c[1].strip()) == "true" and m.i in cfg.pos]
    if not marks or not cids:
        ctx.unrec(su.qn, "C14.k: `cache_lm_file = true` / the call of cache_listmode_file() not found in set_up_before_sensitivity")
        return 0

    def fields_read(f, seen):
        out = set()
        for m in f.walk():
            if m.k == "MemberExpr" and m.get("mk") == "field" and m.c and m.c[0].strip().k == "CXXThisExpr":
                par = m.parent
                if par is not None and par.k == "BinaryOperator" and par.op == "=" and par.c and par.c[0] is m:
                    continue
                out.add(m.get("n"))
        for c in f.calls():
            o = c.call_object()
            if o is not None and o.strip().k == "CXXThisExpr":
                for (cl, sh, _n), g in by.items():
                    if g.qn == c.callee and g.qn not in seen:
                        seen.add(g.qn)
                        out |= fields_read(g, seen)
        return out

    reads = fields_read(P, {P.qn})
    ctx.stats["event_cache_made_from"] = sorted(reads)
    n = 0
    for k_, mk_ in enumerate(marks):
        w = cfg.must_pass_before_exit([mk_], lambda x: x.i in cids)
        if w is None:
            ctx.ob(RULE, su.qn.split("<")[0], "caching-set-up#%d" % k_, True, mk_.where(), "every path of set_up_before_sensitivity() that decides to cache runs cache_listmode_file(): the cache is made from the current additive term, frame, segment range and number of events")
            n += 1
            continue
        # the skip: if-statements after the mark with a return in a branch; the bool members they test
        flags = set()
        for a in su.walk():
            if a.k == "IfStmt" and a.i > mk_.i and a.c and any(x.k == "ReturnStmt" for x in a.walk()) and not any(x.i in cids for x in a.walk()):
                for m in a.c[0].walk():
                    if m.k == "MemberExpr" and m.get("mk") == "field" and m.c and m.c[0].strip().k == "CXXThisExpr" and re.fullmatch(r"(const )?bool", (m.type or "").strip()):
                        flags.add(m.get("n"))
        if not flags:
            ctx.ob(RULE, su.qn.split("<")[0], "caching-set-up#%d" % k_, False, mk_.where(), "a path of set_up_before_sensitivity() decides to cache and returns without cache_listmode_file(), under no member flag: the gradient then uses a cache made for an earlier additive term / frame / number of events")
            n += 1
            continue
        setters = [g for (cl, sh, np_), g in sorted(by.items(), key=lambda kv: (kv[0][0], kv[0][1])) if sh.startswith("set_") and sh not in ("set_up", "set_defaults", "set_up_before_sensitivity") and np_ >= 1 and g.cfg_raw and g.d.get("access", 0) == 0]
        for g in setters:
            ws = {}
            for m in g.walk():
                for e in written_lvalues(m):
                    r = root_of_lvalue(e)
                    if r.startswith("this.") and r[5:] in reads:
                        ws.setdefault(r[5:], []).append(m)
            if not ws:
                continue
            gcfg = CFG(g)
            missing = []
            for F in sorted(flags):
                clr = {m.i for m in g.walk() if m.k == "BinaryOperator" and m.op == "=" and key(m.c[0].strip()) == "this." + F and key(m.c[1].strip()) == "false" and m.i in gcfg.pos}
                if not clr or gcfg.paths_avoiding([(gcfg.entry, -1)], lambda x, c_=clr: x.i in c_) is not None:
                    missing.append(F)
            ctx.ob(RULE, g.qn.split("<")[0] + "/%d" % len(g.params), "clears:%s<-%s" % (",".join(sorted(flags)), ",".join(sorted(ws))), not missing, g.where(), ("clears %s, so the next set_up() re-makes the event cache" % ", ".join(sorted(flags))) if not missing else ("set_up_before_sensitivity() keeps the existing event cache while `%s` is set, cache_listmode_file() reads `%s`, and this setter changes it without clearing the flag: the list-mode gradient keeps using what was cached for the previous value and no longer agrees with the projection-data gradient of the same model" % (", ".join(missing), ", ".join(sorted(ws)))))
            n += 1
    return n


def rule_l_undecoded_event_is_marked_rejected(ctx, f):
    """get_bin_from_event(bin, event): the caller hands in a bin with value 1 and default coordinates (0,0,0,0) and stores the event
    when the value is positive afterwards.  Every return path therefore either decodes the event into THAT bin (event.get_bin(bin, ..))
    or sets its value to a non-positive number - an early return that does neither is counted in bin (0,0,0,0) (F69)."""
    RULE = "C14.l-undecoded-event-marked-rejected"
    if len(f.params) != 2 or not f.cfg_raw:
        ctx.unrec(f.qn, "C14.l: expected get_bin_from_event(bin, event) with a body")
        return 0
    cfg = CFG(f)
    b = "v%d" % f.params[0]["d"]

    def settles(x):
        if not x.is_call():
            return False
        short = (x.callee or "").split("::")[-1]
        if short == "get_bin" and x.call_args() and key(x.call_args()[0].strip()) == b:
            return True
        if short == "set_bin_value" and x.call_object() is not None and key(x.call_object().strip()) == b and x.call_args():
            a = x.call_args()[0].strip()
            k_ = key(a)
            return bool(re.fullmatch(r"\(- [0-9.]+\)|-[0-9.]+|0|0\.0", k_))
        return False

    w = cfg.paths_avoiding([(cfg.entry, -1)], settles)
    ok = w is None
    rets = [m for m in f.walk() if m.k == "ReturnStmt" and m.i in cfg.pos]
    which = ""
    if not ok:
        for r in rets:
            if cfg.must_pass_from_entry([r], settles) is not None:
                which = " (return at line %d)" % r.line
                break
    ctx.ob(RULE, f.qn, "every-return", ok, f.where(), "on every path to a return the event was decoded into the caller's bin or the bin was given a non-positive value" if ok else "a path returns%s without decoding the event into the caller's bin and without marking it rejected: the caller's bin still has value 1 and coordinates (0,0,0,0), so the event is counted there" % which)
    return 1


def rule_m_setup_follows_settings(ctx, fns):
    """LmToProjData::set_up() DERIVES members from settings (the delayed increment from store_prompts/store_delayeds, the time-frame
    mode from the number of events and the frame file, the default frame).  process_data() refuses to run unless the set-up flag is
    on.  So (1) every public setter of a member that influences (data or control dependence) a member assignment of set_up() clears
    the flag - else the derived value of the previous setting is used (F70: delayeds still subtracted after set_store_delayeds(false));
    (2) a bool member that set_up() sets to `true` under a condition on settings is also assigned on the other outcome - else it is
    sticky across set_up() calls (F70: the event cut-off was ignored from the second run on)."""
    from engine.tree import written_lvalues

    RULE = "C14.m-set-up-follows-settings"
    CLS = "stir::LmToProjData"
    by = {}
    for f in fns:
        if f.body is not None and f.cls == CLS:
            by.setdefault((f.short, len(f.params), f.sig), f)
    su = [f for (sh, _n, _s), f in by.items() if sh == "set_up"]
    if not su:
        ctx.fail_broken("C14.m: LmToProjData::set_up not found")
        return 0
    su = su[0]
    FLAG = "_already_setup"

    def this_fields(n):
        return {m.get("n") for m in n.walk() if m.k == "MemberExpr" and m.get("mk") == "field" and m.c and m.c[0].strip().k == "CXXThisExpr"}

    # member assignments of set_up and what influences them
    influences = {}  # input field -> set of derived fields
    assigns = []
    for m in su.walk():
        if m.k in ("BinaryOperator", "CXXOperatorCallExpr") and m.op == "=" and len(m.c) >= 2:
            lhs = key(m.c[0].strip())
            if not lhs.startswith("this.") or lhs == "this." + FLAG:
                continue
            derived = lhs[5:].split(".")[0].split("[")[0]
            src = this_fields(m.c[1])
            for a in m.ancestors():
                if a.k == "IfStmt" and a.c:
                    src |= this_fields(a.c[0])
            assigns.append((m, derived))
            for x in src:
                if x != derived:
                    influences.setdefault(x, set()).add(derived)
    # an in-place default (`if (x == -1) x = ...`) makes x its own input: the setter of x decides
    for m, derived in assigns:
        for a in m.ancestors():
            if a.k == "IfStmt" and a.c and derived in this_fields(a.c[0]):
                influences.setdefault(derived, set()).add(derived)
    ctx.stats["set_up_derives"] = {k_: sorted(v) for k_, v in sorted(influences.items())}
    n = 0
    for (sh, np_, _sig), f in sorted(by.items(), key=lambda kv: (kv[0][0], kv[0][1], kv[0][2])):
        if not sh.startswith("set_") or sh in ("set_up", "set_defaults") or np_ < 1 or f.d.get("access", 0) != 0 or not f.cfg_raw:
            continue
        ws = set()
        for m in f.walk():
            for e in written_lvalues(m):
                r = root_of_lvalue(e)
                if r.startswith("this.") and r[5:] in influences:
                    ws.add(r[5:])
        if not ws:
            continue
        cfg = CFG(f)
        clr = {m.i for m in f.walk() if m.k == "BinaryOperator" and m.op == "=" and key(m.c[0].strip()) == "this." + FLAG and key(m.c[1].strip()) == "false" and m.i in cfg.pos}
        # or it delegates to another setter of the class that clears it
        deleg = {c.i for c in f.calls() if c.i in cfg.pos and (c.callee or "").startswith(CLS + "::set_") and c.call_object() is not None and c.call_object().strip().k == "CXXThisExpr"}
        stop = clr | deleg
        ok = bool(stop) and cfg.paths_avoiding([(cfg.entry, -1)], lambda x, s_=stop: x.i in s_) is None
        ctx.ob(RULE, f.qn + "(" + f.sig[:30] + ")", "clears-flag<-" + ",".join(sorted(ws)), ok, f.where(), "changes %s and clears the set-up flag: process_data() asks for a new set_up()" % ", ".join(sorted(ws)) if ok else "set_up() derives %s from `%s`, which this setter changes without clearing `%s`: process_data() keeps using what was derived from the previous value" % (", ".join(sorted(set().union(*[influences[w] for w in ws]))), ", ".join(sorted(ws)), FLAG))
        n += 1
    # (2) sticky bool members
    cfg = CFG(su)
    done = set()
    for m, derived in assigns:
        if key(m.c[1].strip()) != "true" or derived in done or m.i not in cfg.pos:
            continue
        conds = [a for a in m.ancestors() if a.k == "IfStmt"]
        if not conds:
            continue
        done.add(derived)
        alls = {x.i for x, d2 in assigns if d2 == derived and x.i in cfg.pos}
        rets = [r for r in su.walk() if r.k == "ReturnStmt" and r.i in cfg.pos]
        ok = cfg.must_pass_from_entry(rets, lambda x, s_=alls: x.i in s_) is None
        ctx.ob(RULE, su.qn, "assigned-on-every-path:" + derived, ok, m.where(), "`%s` is assigned on every path of set_up(), whatever the settings" % derived if ok else "`%s` is only ever switched on by set_up() (under a condition on the settings): once on it stays on for later set_up() calls with other settings" % derived)
        n += 1
    return n


def rule_n_lm_quotient_bounded(ctx, fns):
    """LM_gradient_and_value back-projects measured / (forward projection + additive term) for every event.  The function itself tests
    `measured > max_quotient * estimate` (the singularity; the projection-data gradient caps the quotient at the same number): the
    division that reaches back_project must not be evaluated where that test succeeded - it must be known false there (must-facts,
    also through a bool local defined by the test and through ?:) - else an event with estimated mean 0 puts infinity into the gradient
    (F78)."""
    from engine.cfg import relations

    RULE = "C14.n-list-mode-quotient-bounded"
    n = 0
    seen = set()
    for f in sorted(fns, key=lambda g: bool(g.is_dependent)):
        if f.short != "LM_gradient_and_value" or f.body is None or not f.cfg_raw or (f.file, f.body.line) in seen:
            continue
        seen.add((f.file, f.body.line))
        defs = LocalDefs(f)
        cfg = CFG(f)
        bps = [c for c in f.calls() if (c.callee or "").split("::")[-1] == "back_project"]
        if not bps:
            ctx.unrec(f.qn, "C14.n: no back_project call")
            continue
        from engine.algebra import data_slice

        sl = data_slice(f, [a for c in bps for a in c.call_args()] + [c.call_object() for c in bps if c.call_object() is not None], defs)
        # values stored into the bin that is back-projected (set_bin_value(x))
        for c in f.calls():
            if (c.callee or "").split("::")[-1] == "set_bin_value" and c.call_args():
                sl += data_slice(f, [c.call_args()[0]], defs)
        divs = [m for m in sl if m.k == "BinaryOperator" and m.op == "/"]
        divs = list({m.i: m for m in divs}.values())
        if not divs:
            ctx.unrec(f.qn, "C14.n: no quotient reaches back_project")
            continue
        # the singularity test: a comparison mentioning max_quotient
        tests = [m for m in f.walk() if m.k == "BinaryOperator" and m.op in (">", ">=", "<", "<=") and "max_quotient" in key(m, True)]
        if not tests:
            ctx.ob(RULE, f.qn.split("<")[0], "quotient", False, divs[0].where(), "measured/estimate is back-projected and nothing compares the two with max_quotient: an event with estimated mean 0 gives infinity")
            n += 1
            continue
        tkeys = {key(t) for t in tests}
        flag_locals = {"v%d" % d for d, vd in defs.decl.items() if vd.c and defs.single_def(d) is not None and key(defs.single_def(d).strip()) in tkeys}
        for dv in divs:
            at = dv
            while at is not None and at.i not in cfg.pos:
                at = at.parent
            facts = cfg.facts_at(at) if at is not None else frozenset()
            ok = any((k_ in tkeys or k_ in flag_locals) and tv is False for k_, tv, _r in facts)
            ctx.ob(RULE, f.qn.split("<")[0], "quotient", ok, dv.where(), "the quotient is evaluated only where `measured > max_quotient * estimate` is known to be false" if ok else "measured/estimate reaches back_project also where the singularity test `%s` succeeded: for an event with estimated mean 0 the gradient gets infinity (the projection-data gradient caps the quotient at max_quotient)" % key(tests[0], True)[:80])
            n += 1
    return n


def rule_o_event_cutoff_counts_all_batches(ctx, f):
    """read_listmode_batch(ibatch) reads one cache-full of events; num_events_to_use limits the events of the WHOLE frame.  The count
    that is compared with it must therefore include the earlier batches: its data slice contains the batch number (or a member that
    persists between the calls) - a local that starts at 0 in every call never reaches a cut-off larger than the cache (F79)."""
    from engine.algebra import data_slice

    RULE = "C14.o-event-cut-off-counts-all-batches"
    defs = LocalDefs(f)
    if not f.params:
        ctx.unrec(f.qn, "C14.o: no batch parameter")
        return 0
    ib = f.params[0]["d"]
    n = 0
    for m in f.walk():
        if not (m.k == "BinaryOperator" and m.op in (">=", ">", "<", "<=", "==")):
            continue
        sides = [m.c[0].strip(), m.c[1].strip()]
        ks = [key(x, True) for x in sides]
        lim = [i for i, k_ in enumerate(ks) if "num_events_to_use" in k_]
        if len(lim) != 1:
            continue
        other = sides[1 - lim[0]]
        if key(other) in ("0", "0.0"):
            continue  # `num_events_to_use > 0`: is there a cut-off at all
        sl = data_slice(f, [other], defs)
        persists = any(x.k == "DeclRefExpr" and x.get("d") == ib for x in sl) or any(x.k == "MemberExpr" and x.get("mk") == "field" and x.c and x.c[0].strip().k == "CXXThisExpr" and x.get("n") not in ("num_events_to_use",) and any(key(w.c[0].strip()) == "this." + x.get("n") for w in f.walk() if w.k in ("BinaryOperator", "CompoundAssignOperator", "UnaryOperator") and w.c) for x in sl)
        ctx.ob(RULE, f.qn.split("<")[0], "cut-off@%d" % n, persists, m.where(), "the count compared with num_events_to_use includes the earlier batches (depends on the batch number)" if persists else "`%s` is compared with num_events_to_use but starts afresh in every batch: a cut-off larger than the cache size is never reached and all events of the frame are used" % key(other, True)[:60])
        n += 1
    return n


def _in_graph(cfg, x):
    while x is not None and x.i not in cfg.pos:
        x = x.parent
    return x


def rule_p_frame_end_tested_before_every_event(ctx, f):
    """`for every event inside a requested time frame exactly one count ... and nothing else`: between any update of the clock
    (time record read in the event loop, skip-ahead on entering a frame, rewind for the next batch) and the histogramming of an event
    the clock is compared with the end of the frame.  Testing only when the NEXT time record arrives lets a frame that is already over
    when it is entered (frame shorter than the spacing of the time records) collect every event up to that record (F91)."""
    RULE = "C14.p-frame-end-tested-before-every-event"
    cfg = CFG(f)
    ev = [c for c in f.calls() if (c.callee or "").endswith("::get_bin_from_event") and c.i in cfg.pos]
    writes = [m for m in f.walk() if m.k in ("BinaryOperator", "CXXOperatorCallExpr") and m.op == "=" and key(m.c[0].strip()) == "this.current_time"]
    if not ev or not writes:
        ctx.fail_broken("C14.p: get_bin_from_event call / writes of current_time not found in process_data")
        return
    # the tests: comparisons of the clock with the end of the frame, and the frame-mode flag they are and-ed with
    endk = set()
    defs = LocalDefs(f)
    for d, vd in defs.decl.items():
        ini = defs.single_def(d)
        if ini is not None and re.search(r"get_end_time\(", key(ini, True)):
            endk.add("v%d" % d)
    tests = set()
    ntests = 0
    for m in f.walk():
        if m.k == "BinaryOperator" and m.op in (">=", ">", "<", "<=") and {key(m.c[0].strip()), key(m.c[1].strip())} & {"this.current_time"} and ({key(m.c[0].strip()), key(m.c[1].strip())} & endk or any("get_end_time" in key(x, True) for x in m.c)):
            ntests += 1
            tests.add(m.i)
            top = m
            while top.parent is not None and top.parent.k in ("BinaryOperator", "UnaryOperator", "ParenExpr", "ImplicitCastExpr") and (top.parent.k != "BinaryOperator" or top.parent.op in ("&&", "||")):
                top = top.parent
            for x in top.walk():
                if x.k == "DeclRefExpr" or x.k == "MemberExpr":
                    tests.add(x.i)
                    if x.parent is not None and x.parent.k == "ImplicitCastExpr":
                        tests.add(x.parent.i)
    if not ntests:
        ctx.ob(RULE, f.qn, "clock-compared-with-frame-end", False, f.where(), "the clock is never compared with the end of the frame")
        return
    evids = {c.i for c in ev}
    # inside the event loop the clock follows EVERY time record: the update is under `record.is_time()` only - a further condition on the
    # frame (F92: `&& end_time > 0.01`, meant for the frame (0,0)) makes a genuine short frame swallow the whole stream
    loops = [a for a in ev[0].ancestors() if a.k == "WhileStmt"]
    for w in writes:
        if not loops or not any(a is loops[0] for a in w.ancestors()):
            continue
        conds = []
        for a in w.ancestors():
            if a is loops[0]:
                break
            if a.k == "IfStmt":
                conds.append(a.c[0])
        foreign = sorted({key(x, True) for c in conds for x in c.walk() if x.k in ("DeclRefExpr", "MemberExpr") and x.get("dk") != "function" and not x.is_call() and not re.search(r"rec|is_time|time\(\)", key(x, True)) and not (x.parent is not None and x.parent.is_call() and x.parent.c and x.parent.c[0] is x)})
        foreign = [x for x in foreign if x and "is_time" not in x]
        ctx.ob(RULE, f.qn, "clock-follows-every-time-record", not foreign, w.where(), "in the event loop the clock is updated for every time record" if not foreign else "the clock is only updated from a time record when a condition on %s holds: for the other frames time records are ignored, the frame never ends and takes every event of the stream" % foreign)
    for k_, w in enumerate(sorted(writes, key=lambda m: m.line)):
        g = _in_graph(cfg, w)
        if g is None:
            ctx.unrec(f.qn, "C14.p: clock update at %s not found in the flow graph" % w.where())
            continue
        wit = cfg.paths_avoiding([cfg.pos[g.i]], lambda x: x.i in tests, target_pred=lambda x: x.i in evids, to_exit=False)
        ok = wit is None
        ctx.ob(RULE, f.qn, "clock-update@%d" % k_, ok, w.where(), "every path from this update of the clock to the histogramming of an event tests the clock against the end of the frame" if ok else "after this update of the clock an event can be histogrammed without the clock having been compared with the end of the frame (blocks %s): a frame that is already over when it is entered collects all events up to the next time record - events outside the frame, and the frames of a partition do not add up to the whole" % wit)


def rule_q_batch_sizes_validated(ctx, fns, pd):
    """`the result does not depend on how many segments or TOF bins are held in memory at once`: the batch loops step by these settings,
    so set_up() refuses values that are not positive (0: the loop never advances; F93)."""
    RULE = "C14.q-batch-size-validated"
    steps = []
    for m in pd.walk():
        if m.k == "ForStmt" and len(m.c) >= 3:
            inc = m.c[-2].strip() if len(m.c) == 4 else None
            for x in ([inc] if inc is not None else []):
                if x.k == "CompoundAssignOperator" and x.op == "+=" and key(x.c[1].strip()).startswith("this."):
                    steps.append((key(x.c[1].strip()), x))
    su = [f for f in fns if f.short == "set_up" and f.body is not None]
    if not steps or not su:
        ctx.fail_broken("C14.q: batch loops stepping by a member / LmToProjData::set_up not found")
        return
    for member, x in steps:
        ok = False
        for m in su[0].walk():
            if m.k != "IfStmt":
                continue
            c = m.c[0].strip()
            hits = [b for b in c.walk() if b.k == "BinaryOperator" and b.op in ("<=", "<", "==") and key(b.c[0].strip()) == member and key(b.c[1].strip()) in ("0", "1")]
            hits = [b for b in hits if not (b.op == "<" and key(b.c[1].strip()) == "0")]
            if hits and any(y.is_call() and (y.callee or "").split("::")[-1] == "error" for y in m.c[1].walk()):
                ok = True
        ctx.ob(RULE, pd.qn, "step:" + member.split(".")[-1], ok, x.where(), "set_up() refuses %s <= 0" % member.split(".")[-1] if ok else "the loop steps by %s, and set_up() accepts 0 for it (no test of the setting leads to error()): process_data() never advances" % member.split(".")[-1])


def rule_r_frame_definitions_equality(ctx, fns):
    """equality of time frame definitions (used on the time-frame metadata of the per-frame outputs) compares the number of frames (F94)"""
    RULE = "C14.r-frame-definitions-compared-whole"
    eq = [f for f in fns if f.short == "operator==" and "TimeFrameDefinitions" in f.qn and f.body is not None]
    if not eq:
        ctx.fail_broken("anchor TimeFrameDefinitions::operator== not found")
        return
    f = eq[0]
    par = "v%d" % f.params[0]["d"]
    sized = re.compile(r"(size\(\)|get_num_frames\(\)|get_num_time_frames\(\))")
    ok = False
    for m in f.walk():
        if m.k == "BinaryOperator" and m.op in ("!=", "==", "<", ">"):
            a, b = key(m.c[0].strip(), True), key(m.c[1].strip(), True)
            if sized.search(a) and sized.search(b) and ((par in key(m.c[0].strip()) or "t." in a) != (par in key(m.c[1].strip()) or "t." in b)):
                ok = True
    elementwise = any(x.is_call() and (x.callee or "").split("::")[-1] in ("at", "operator[]") for x in f.walk())
    if not ok and not elementwise:
        ctx.unrec(f.qn, "C14.r: how the frames are compared was not recognised")
        return
    ctx.ob(RULE, f.qn, "number-of-frames-compared", ok, f.where(), "the numbers of frames are compared before the frames" if ok else "frames are compared one by one over the length of *this only: definitions with more frames compare equal, and with fewer frames at() throws")


def rule_s_seconds_setter_inverts_getter(ctx, fns):
    """ListTime::set_time_in_secs is the inverse of get_time_in_secs (F95: it divided by 1000 as the getter does)"""
    RULE = "C14.s-seconds-setter-inverts-getter"

    def factor(f):
        for m in f.walk():
            if m.k == "BinaryOperator" and m.op in ("*", "/"):
                lit = [x.strip() for x in m.c if x.strip().k in ("FloatingLiteral", "IntegerLiteral")]
                if len(lit) == 1 and lit[0] is m.c[1].strip():
                    v = float(lit[0].get("v", 0) or 0)
                    if v:
                        return v if m.op == "*" else 1.0 / v
        return None

    g = [f for f in fns if f.short == "get_time_in_secs" and "ListTime" in f.qn and f.body is not None]
    st = [f for f in fns if f.short == "set_time_in_secs" and "ListTime" in f.qn and f.body is not None]
    if not g or not st:
        ctx.fail_broken("anchors ListTime::get_time_in_secs / set_time_in_secs not found")
        return
    fg, fs_ = factor(g[0]), factor(st[0])
    if fg is None or fs_ is None:
        ctx.unrec(st[0].qn, "C14.s: the unit conversion in ListTime::get/set_time_in_secs was not recognised")
        return
    ok = abs(fg * fs_ - 1) < 1e-9
    ctx.ob(RULE, st[0].qn, "setter-inverts-getter", ok, st[0].where(), "seconds -> milliseconds by the reciprocal of the getter's factor" if ok else "get_time_in_secs() scales milliseconds by %g and set_time_in_secs() scales seconds by %g: not inverse (set_time_in_secs(2.5) stores %g ms)" % (fg, fs_, 2.5 * fs_))


def _subscript_chain(n):
    idx = []
    n = n.strip()
    while n.k in ("CXXOperatorCallExpr", "ArraySubscriptExpr") and (n.k == "ArraySubscriptExpr" or n.op == "[]") and len(n.c) >= 2:
        idx.insert(0, n.c[-1].strip())
        n = n.c[-2].strip()
    if n.k == "DeclRefExpr" and idx:
        return n, idx
    return None


def run(ctx):
    ctx.explanation = (
        "Decides for LmToProjData::process_data: (a) the segment and TOF batch loops step by their window width with window end "
        "min(max+1,start+width)-1 and the store is guarded by start<=coordinate<=end for both, so every accepted event is stored in "
        "exactly one pass whatever the numbers held in memory; (b) later passes over a frame rewind to the saved frame start and "
        "reset the clock, the first pass saves that position after skipping to the frame start, and the event loop follows either; "
        "(c) the store is dominated by range tests of tangential, axial and TOF index against the output and bin_value>0 is the "
        "first acceptance test; (d) the amount added is bin_value*event_increment with the documented prompt/delayed increment and "
        "the event budget decreases by the same increment; (e) each allocated batch is saved and freed with the same window on every "
        "normal path. (g) list-mode subsets select events by the residue class of the basic view; (c') the value is known positive at the "
        "store, (l) an event that was not decoded into the caller's bin is marked rejected, (m) setters of what set_up() derives state from "
        "clear the set-up flag, (k) the list-mode objective's event cache is re-made by every caching set-up or kept only under flags all "
        "input setters clear. NOT decided: event->detector "
        "decoding per scanner, time-frame arithmetic, frame additivity, LM gradient = sinogram gradient (numerical); the additive "
        "caching loop for TOF data (see DESIGN.md, candidate F7, not demonstrable with the data available here)."
    )
    reqs = requests()
    ctx.ex.prefetch(reqs)
    us = [ctx.ex.get(r) for r in reqs]
    if any(u is None for u in us):
        return
    pd = [f for f in us[0].functions if f.short == "process_data" and f.body is not None and f.cfg_raw]
    if not pd:
        ctx.fail_broken("anchor LmToProjData::process_data not found")
        return
    register_callee_effects(ctx, us[0].functions)
    rule_process_data(ctx, pd[0])
    gb = [f for f in us[0].functions if f.short == "get_bin_from_event" and f.body is not None]
    if not gb:
        ctx.fail_broken("anchor LmToProjData::get_bin_from_event not found")
    else:
        rule_l_undecoded_event_is_marked_rejected(ctx, gb[0])
        ctx.require_count("C14.l-undecoded-event-marked-rejected", 1)
    from engine import cfg as cfgmod

    cfgmod.REFINED_KILLS.clear()
    lm = [f for f in us[1].functions if f.short == "LM_distributable_computation" and f.body is not None and not f.is_dependent] or [f for f in us[1].functions if f.short == "LM_distributable_computation" and f.body is not None]
    if not lm:
        ctx.fail_broken("anchor LM_distributable_computation not found")
    else:
        rule_g(ctx, lm[0])
        rule_h_local_images_reach_output(ctx, lm[0])
        ctx.require_count("C14.h-accumulated-image-reaches-output", 1)
    rb = [f for f in us[2].functions if f.short == "read_listmode_batch" and f.body is not None and not f.is_dependent] or [f for f in us[2].functions if f.short == "read_listmode_batch" and f.body is not None]
    if not rb:
        ctx.fail_broken("anchor read_listmode_batch not found")
    else:
        rule_i_additive_lookup_uses_event_coordinates(ctx, rb[0])
        ctx.require_count("C14.i-additive-term-of-the-event", 1)
        rule_j_batches_continue_with_the_clock(ctx, rb[0])
        rule_o_event_cutoff_counts_all_batches(ctx, rb[0])
        ctx.require_count("C14.o-event-cut-off-counts-all-batches", 1)
        ctx.require_count("C14.j-batches-continue-with-the-clock", 1)
    rule_k_cache_follows_the_model(ctx, us[3].functions + us[4].functions)
    rule_m_setup_follows_settings(ctx, us[5].functions)
    rule_p_frame_end_tested_before_every_event(ctx, pd[0])
    ctx.require_count("C14.p-frame-end-tested-before-every-event", 5)
    rule_q_batch_sizes_validated(ctx, us[5].functions, pd[0])
    ctx.require_count("C14.q-batch-size-validated", 2)
    tu = ctx.ex.get(Request("src/buildblock/TimeFrameDefinitions.cxx", fn=["stir::TimeFrameDefinitions::operator=="]))
    if tu is not None:
        rule_r_frame_definitions_equality(ctx, tu.functions)
        ctx.require_count("C14.r-frame-definitions-compared-whole", 1)
    lu = ctx.ex.get(Request(LM, fn=["stir::ListTime::.*"], files=["/repo/src/include/stir/listmode/ListTime\\.h"]))
    if lu is not None:
        rule_s_seconds_setter_inverts_getter(ctx, lu.functions)
        ctx.require_count("C14.s-seconds-setter-inverts-getter", 1)
    nu = ctx.ex.get(Request(LL, fn=["stir::LM_gradient_and_value"], files=["/repo/src/recon_buildblock/PoissonLogLikelihoodWithLinearModelForMeanAndListModeDataWithProjMatrixByBin\\.cxx"]))
    if nu is not None:
        rule_n_lm_quotient_bounded(ctx, nu.functions)
        ctx.require_count("C14.n-list-mode-quotient-bounded", 1)
    ctx.require_count("C14.m-set-up-follows-settings", 7)
    ctx.require_count("C14.k-event-cache-follows-the-model", 1)
    ctx.require_count("C14.a-batches-partition", 6)
    ctx.require_count("C14.c-store-bounded", 5)
    ctx.require_count("C14.d-increment", 3)
