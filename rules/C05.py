"""C05 - Poisson log-likelihood.  Decided clauses (structural only):

 a  RF4  first-request-order independence of the lazy set-up of the distributable computation: for every request
         kind and every reachable entry state of the two set-up flags, the 'internal error' branch is unreachable, the
         distributable_* computation runs with the set-up matching the projectors it is given, no flag is read
         before it was ever defined, and the flag invariant is re-established on exit.
 b  RF5  configuration setters of the objective-function hierarchy invalidate already_set_up.
"""
import re

from engine import rf5
from engine.absint import Explorer
from engine.algebra import LocalDefs
from engine.cfg import CFG
from engine.extract import Request
from engine.tree import key

UNIT = "src/recon_buildblock/PoissonLogLikelihoodWithLinearModelForMeanAndProjData.cxx"
CLS = "stir::PoissonLogLikelihoodWithLinearModelForMeanAndProjData"
A = "this.distributable_computation_already_setup"
L = "this.latest_setup_distributable_computation_was_with_orig_projectors"
S = "this.sensitivity_uses_same_projector()"


def requests():
    return [
        Request(UNIT, fn=[CLS + "::.*", "stir::find_basic_viewgram_indices_in_subset"], rec=[CLS]),
        Request("src/recon_buildblock/PoissonLogLikelihoodWithLinearModelForMean.cxx", fn=["stir::PoissonLogLikelihoodWithLinearModelForMean::.*"]),
        Request("src/recon_buildblock/GeneralisedObjectiveFunction.cxx", fn=["stir::GeneralisedObjectiveFunction::.*"]),
        Request("src/recon_buildblock/distributable.cxx", fn=["stir::get_viewgrams", "stir::zero_end_sinograms", "stir::distributable_computation"]),
    ]


def _insts(unit):
    by = {}
    for f in unit.functions:
        by.setdefault((f.file, f.body.line if f.body is not None else f.line, f.qn), []).append(f)
    out = []
    for _k, fs in sorted(by.items()):
        inst = [f for f in fs if not f.is_dependent]
        out.append((inst or fs)[0])
    return out


def rule_a(ctx, fns):
    requesters = []
    for fn in fns:
        if fn.body is None or not fn.cfg_raw:
            continue
        reads = [n for n in fn.walk() if n.k == "MemberExpr" and key(n) in (A, L)]
        dist = [c for c in fn.calls() if c.callee and c.callee.startswith("stir::distributable_")]
        if reads and dist:
            requesters.append((fn, dist))
    ctx.stats["request_functions"] = [f.qn for f, _ in requesters]
    # invariant on entry: A false (L never defined or anything)  or  A true and L defined
    entry = [(False, "U", s) for s in (True, False)] + [(False, l, s) for l in (True, False) for s in (True, False)] + [
        (True, l, s) for l in (True, False) for s in (True, False)
    ]
    for fn, dist in requesters:
        cfg = CFG(fn)
        fid = fn.qn
        ex = Explorer(cfg, [A, L, S])
        at_call = []

        def on_el(n, s, _ex, at_call=at_call):
            if n.is_call() and n.callee and n.callee.startswith("stir::distributable_"):
                at_call.append((n, s))

        exits = ex.run(entry, on_el)
        # (i) internal-error branch unreachable
        internal = [
            (n, s)
            for kind, n, s in ex.events
            if kind == "abort" and n is not None and n.is_call() and n.callee == "stir::error" and any("internal error" in (m.get("v") or "") for m in n.walk() if m.k == "StringLiteral")
        ]
        n_internal_sites = sum(
            1 for c in fn.calls("stir::error") if any("internal error" in (m.get("v") or "") for m in c.walk() if m.k == "StringLiteral")
        )
        ctx.ob(
            "C05.a-setup-typestate",
            fid,
            "internal-error-branch",
            not internal,
            fn.where(),
            "the 'internal error: setup_distributable_computation not called' branch is unreachable for all %d entry states (%d such branches)" % (len(entry), n_internal_sites)
            if not internal
            else "reachable with entry-derived state (already_setup, latest_orig, sens_same_projector)=%s at line %d" % (internal[0][1], internal[0][0].line),
        )
        # (ii) at the computation: A true and L matches the projectors handed over
        bad = []
        for n, s in at_call:
            args = " ".join(key(a, True) for a in n.call_args()[:2])
            if "projector_pair_ptr" in args:
                want = True
            elif "sens_backprojector_sptr" in args:
                want = s[2]  # original projectors iff the sensitivity uses the same projector
            else:
                want = None
            if s[0] is not True or (want is not None and s[1] is not want):
                bad.append((n, s, want))
        ctx.ob(
            "C05.a-setup-typestate",
            fid,
            "computation-runs-with-matching-setup",
            not bad and bool(at_call),
            fn.where(),
            "%d (call,state) pairs: already_setup is true and latest_orig matches the projectors passed" % len(at_call)
            if not bad and at_call
            else ("no distributable call reached" if not at_call else "state %s at %s line %d, expected latest_orig=%s" % (bad[0][1], bad[0][0].callee, bad[0][0].line, bad[0][2])),
        )
        # (iii) no read of an undefined flag
        ureads = [(n, s) for kind, n, s in ex.events if kind == "read" and key(n) in (A, L) and s[ex.index[key(n)]] == "U"]
        ctx.ob(
            "C05.a-setup-typestate",
            fid,
            "no-read-of-undefined-flag",
            not ureads,
            fn.where(),
            "flags are read only after a definition" if not ureads else "%s read at line %d while never defined (state %s)" % (key(ureads[0][0], True), ureads[0][0].line, ureads[0][1]),
        )
        # (iv) invariant on exit
        badexit = [s for s in exits if s[0] is True and s[1] == "U"]
        ctx.ob("C05.a-setup-typestate", fid, "exit-invariant", not badexit and bool(exits), fn.where(), "already_setup => latest_orig defined on every normal exit (%d exit states)" % len(exits))
    # set_up_before_sensitivity resets A on all normal paths
    for fn in fns:
        if fn.short == "set_up_before_sensitivity" and fn.cfg_raw:
            cfg = CFG(fn)
            resets = {n.i for n in fn.walk() if n.k == "BinaryOperator" and n.op == "=" and key(n.c[0]) == A and n.c[1].strip().k == "CXXBoolLiteralExpr" and n.c[1].strip().get("v") is False}
            # only paths returning Succeeded::yes matter; conservatively: all normal paths after the projector set_up call
            setups = [c for c in fn.calls() if c.callee and c.callee.endswith("ProjectorByBinPair::set_up")]
            wit = cfg.must_pass_before_exit(setups, lambda n: n.i in resets) if setups else [0]
            ctx.ob("C05.a-setup-typestate", fn.qn, "set_up-resets-flag", wit is None, fn.where(), "after (re)setting up the projectors every normal path clears already_setup" if wit is None else "path %s" % wit)
    return len(requesters)


def rule_c_end_planes(ctx, fn):
    """get_viewgrams: when segment-0 end planes are to be zeroed, every viewgram set handed back (measured, additive,
    multiplicative) is zeroed after its last modification - on every path, for every combination of inputs."""
    cfg = CFG(fn)
    outs = [p for p in fn.params if "RelatedViewgrams" in p["t"] and p["t"].rstrip().endswith("&") and not p["t"].startswith("const")]
    # the zeroing flag is found from the code, not by its name: the bool parameter that is known to be true at every
    # zero_end_sinograms call
    bools = {"v%d" % p["d"]: p for p in fn.params if p["t"].replace("const ", "").strip() in ("bool", "_Bool")}
    zcalls = [c for c in fn.calls() if c.callee == "stir::zero_end_sinograms"]
    if not outs or not bools:
        ctx.unrec(fn.qn, "expected by-reference RelatedViewgrams outputs and a bool end-plane flag parameter")
        return
    if not zcalls:
        for i, p in enumerate(outs):
            ctx.ob("C05.c-end-planes-zeroed-uniformly", fn.qn, "output#%d" % i, False, fn.where(), "get_viewgrams never calls zero_end_sinograms: %s is returned without end-plane zeroing" % p["n"])
        return
    cand = None
    ldefs = LocalDefs(fn)
    from engine.cfg import atoms as _atoms

    def true_keys(c):
        out = set()
        for k, tv, _r in cfg.facts_at(c):
            if tv is not True:
                continue
            out.add(k)
            # a bool local defined once as a conjunction: its conjuncts hold as well
            m_ = re.fullmatch(r"v(\d+)", k)
            if m_:
                init = ldefs.single_def(int(m_.group(1)))
                if init is not None:
                    for at, t2 in _atoms(init, True):
                        if t2 is True:
                            out.add(key(at))
        return out

    for c in zcalls:
        here = {k for k in true_keys(c) if k in bools}
        cand = here if cand is None else (cand & here)
    if not cand or len(cand) != 1:
        ctx.unrec(fn.qn, "cannot identify the end-plane flag: bool parameters true at every zero_end_sinograms call = %s" % sorted(cand or []))
        return
    zkey = cand.pop()
    z = bools[zkey]
    segkeys = {key(n) for n in fn.walk() if n.k == "BinaryOperator" and n.op == "==" and key(n.c[0].strip()).endswith(".segment_num()") and key(n.c[1].strip()) == "0"}
    if len(segkeys) != 1:
        ctx.unrec(fn.qn, "expected exactly one form of the test segment_num() == 0, found %s" % sorted(segkeys))
        return
    skey = segkeys.pop()
    ghosts = ["ghost:zeroed:%d" % i for i, p in enumerate(outs)]
    roots_ = {"v%d" % p["d"]: i for i, p in enumerate(outs)}
    ex = Explorer(cfg, [zkey, skey] + ghosts, defs=ldefs)
    from engine.tree import written_lvalues, root_of_lvalue

    def on_el(n, s, _ex):
        s2 = list(s)
        changed = False
        if n.is_call() and n.callee == "stir::zero_end_sinograms" and n.call_args():
            a0 = n.call_args()[0].strip()
            while a0.k in ("CXXConstructExpr", "Cast") and len(a0.c) == 1:
                a0 = a0.c[0].strip()  # the shared_ptr is passed by value: a copy of the same pointer
            r = root_of_lvalue(a0)
            if r in roots_:
                s2[2 + roots_[r]] = True
                changed = True
        else:
            for e in written_lvalues(n):
                r = root_of_lvalue(e)
                if r in roots_:
                    s2[2 + roots_[r]] = False
                    changed = True
        return [tuple(s2)] if changed else None

    entry = [(zv, sv) + tuple(True for _ in outs) for zv in (True, False) for sv in (True, False)]
    exits = ex.run(entry, on_el)
    for i, p in enumerate(outs):
        bad = [s for s in exits if s[0] is True and s[1] is True and s[2 + i] is not True]
        ctx.ob(
            "C05.c-end-planes-zeroed-uniformly",
            fn.qn,
            "output#%d" % i,
            not bad and bool(exits),
            fn.where(),
            "on every path with zero_seg0_end_planes and segment 0, zero_end_sinograms(%s) follows the last modification of %s (%d exit states)" % (p["n"], p["n"], len(exits))
            if not bad
            else "a path with zero_seg0_end_planes && segment_num()==0 returns %s modified but not end-plane-zeroed" % p["n"],
        )


def rule_d_accumulators_start_from_zero(ctx, fns):
    """add_subset_sensitivity(target, k) ACCUMULATES into its target.  At every call site the target - the slot
    subsensitivity_sptrs[k] - must, on every path, have been zero-filled, replaced by a fresh empty copy, or (only when subset
    sensitivities are NOT used) made an alias of slot 0, into which the total is deliberately accumulated.  Otherwise what a previous
    set_up() left in the slot is added to the new sensitivity (the quantity would depend on the object's history)."""
    n = 0
    getter = [f for f in fns if f.short == "get_subset_sensitivity_sptr" and f.body is not None]
    slot_of_getter = None
    for g in getter:
        rets = [r for r in g.walk() if r.k == "ReturnStmt" and r.c]
        if len(rets) == 1 and g.params:
            e = rets[0].c[0].strip()
            while e.k in ("CXXConstructExpr", "CXXTemporaryObjectExpr") and len(e.c) == 1:
                e = e.c[0].strip()  # the shared_ptr is returned by value: a copy of the slot's pointer
            k = key(e)
            if k.endswith("[v%d]" % g.params[0]["d"]):
                slot_of_getter = k[: -len("[v%d]" % g.params[0]["d"])]
    for f in fns:
        if f.body is None or not f.cfg_raw:
            continue
        calls = [c for c in f.calls() if (c.callee or "").endswith("::add_subset_sensitivity")]
        if not calls:
            continue
        cfg = CFG(f)
        for ci, c in enumerate(calls):
            tgt = c.call_args()[0].strip()
            while tgt.k in ("UnaryOperator", "CXXOperatorCallExpr") and tgt.op == "*" and len(tgt.c) == 1:
                tgt = tgt.c[0].strip()
            slot = None
            if tgt.k == "CXXMemberCallExpr" and (tgt.callee or "").endswith("::get_subset_sensitivity_sptr") and slot_of_getter:
                slot = "%s[%s]" % (slot_of_getter, key(tgt.call_args()[0].strip()))
            elif tgt.k == "CXXOperatorCallExpr" and tgt.op == "[]":
                slot = key(tgt)
            if slot is None:
                ctx.unrec(f.qn, "target of add_subset_sensitivity at line %d is not a subset-sensitivity slot" % c.line)
                continue
            base = slot[: slot.rindex("[")]
            idx = key(c.call_args()[1].strip())
            if not slot.endswith("[%s]" % idx):
                ctx.ob("C05.d-accumulators-start-from-zero", f.qn, "target-matches-subset@%d" % ci, False, c.where(), "add_subset_sensitivity accumulates subset %s into the slot %s" % (idx, slot))
                n += 1
                continue

            def initialises(m):
                # std::fill(slot->begin_all(), slot->end_all(), 0)
                if m.is_call() and m.callee == "std::fill" and len(m.call_args()) == 3:
                    a = [key(x.strip()) for x in m.call_args()]
                    return a[0] == "*%s.begin_all()" % slot and a[1] == "*%s.end_all()" % slot and a[2] in ("0", "0.0")
                # slot->fill(0)
                if m.k == "CXXMemberCallExpr" and (m.callee or "").split("::")[-1] == "fill" and m.c and key(m.c[0].strip()) == "*" + slot and key(m.call_args()[0].strip()) in ("0", "0.0"):
                    return True
                # slot.reset(X->get_empty_copy())
                if m.k == "CXXMemberCallExpr" and (m.callee or "").split("::")[-1] == "reset" and m.c and key(m.c[0].strip()) == slot and m.call_args() and any(x.is_call() and (x.callee or "").split("::")[-1] == "get_empty_copy" for x in m.call_args()[0].walk()):
                    return True
                # slot = slots[0]  when subset sensitivities are not used: the total is accumulated in slot 0 (itself initialised)
                if m.k in ("BinaryOperator", "CXXOperatorCallExpr") and m.op == "=" and len(m.c) == 2 and key(m.c[0].strip()) == slot and key(m.c[1].strip()) == base + "[0]":
                    facts = cfg.facts_at(m)
                    return any(tv is False and k_ in ("this.get_use_subset_sensitivities()", "this.use_subset_sensitivities") for k_, tv, _r in facts)
                return False

            w = cfg.must_pass_from_entry([c], initialises)
            ctx.ob("C05.d-accumulators-start-from-zero", f.qn, "slot-initialised@%d" % ci, w is None, c.where(), "every path to add_subset_sensitivity(slot[k], k) zero-fills the slot, replaces it by a fresh empty copy, or (subset sensitivities off) aliases it to slot 0" if w is None else "a path reaches add_subset_sensitivity with whatever an earlier set_up() left in %s: blocks %s" % (slot.replace("this.", ""), w))
            n += 1
    return n


def rule_d_outputs_zeroed(ctx, f):
    """distributable_computation accumulates into its optional outputs (image, log-likelihood): each non-const pointer output is
    set to zero before anything else is done with it, on every path"""
    cfg = CFG(f)
    n = 0
    for pi, p in enumerate(f.params):
        t = p["t"].strip()
        if not t.endswith("*") or t.startswith("const ") or not ("DiscretisedDensity" in t or t.replace(" ", "") in ("double*", "float*")):
            continue
        pk = "v%d" % p["d"]

        def zeroes(m):
            if m.k in ("BinaryOperator", "CXXOperatorCallExpr") and m.op == "=" and len(m.c) == 2 and key(m.c[0].strip()) in ("*" + pk, "(* %s)" % pk) and key(m.c[1].strip()) in ("0", "0.0"):
                return True
            return m.k == "CXXMemberCallExpr" and (m.callee or "").split("::")[-1] == "fill" and m.c and key(m.c[0].strip()) in ("*" + pk, pk) and key(m.call_args()[0].strip()) in ("0", "0.0")

        uses = []
        for m in f.walk():
            if m.k == "DeclRefExpr" and m.get("d") == p["d"] and m.i in cfg.pos:
                par = m.parent
                while par is not None and par.k == "Cast":
                    par = par.parent
                if par is not None and par.k in ("BinaryOperator", "CXXOperatorCallExpr") and par.op in ("!=", "==", "&&", "||"):
                    continue  # null test
                if par is not None and par.k in ("IfStmt", "UnaryOperator") and (par.k == "IfStmt" or par.op == "!"):
                    continue
                if any(zeroes(a) for a in m.ancestors()):
                    continue
                uses.append(m)
        if not uses:
            continue
        w = cfg.must_pass_from_entry(uses, zeroes)
        if w is not None:
            # `if (P != NULL) *P = 0;` before every use: the path around the test has P == NULL, where there is nothing to zero
            guards = [g for g in f.walk() if g.k == "IfStmt" and len(g.c) == 2 and any(zeroes(x) for x in g.c[1].walk()) and [m.get("d") for m in g.c[0].walk() if m.k == "DeclRefExpr"] == [p["d"]] and not any(x.k in ("ReturnStmt", "BreakStmt", "ContinueStmt", "GotoStmt") for x in g.c[1].walk())]
            if guards and all(cfg.dominates(guards[0].c[0].strip(), u) for u in uses if not any(a is guards[0] for a in u.ancestors())):
                w = None
        ctx.ob("C05.d-accumulators-start-from-zero", f.qn, "output#%d-zeroed-first" % pi, w is None, f.where(), "the optional output (%s) is set to zero before it is accumulated into, on every path (%d uses)" % (t, len(uses)) if w is None else "output parameter %d (%s) is used before it was zeroed: blocks %s" % (pi, t, w))
        n += 1
    return n


def rule_f_one_segment_range(ctx, fns):
    """Value, gradient, sensitivity and Hessian products must all run over the same data: every call from the objective function into
    a sweep over the projection data (the subset enumeration, its file-local wrapper, the distributable_* computations) carries the
    segment range (-max_segment_num_to_process, +max_segment_num_to_process); a helper in between hands its caller's range through."""
    from engine.algebra import LocalDefs

    ENUM = "stir::detail::find_basic_vs_nums_in_subset"
    M = ("this.max_segment_num_to_process", "this.get_max_segment_num_to_process()")
    n = 0
    seen = set()
    for f in fns:
        if f.body is None or (f.file, f.line, f.qn) in seen:
            continue
        seen.add((f.file, f.line, f.qn))
        sweeps = [c for c in f.calls() if c.callee and (c.callee == ENUM or c.callee == "stir::find_basic_viewgram_indices_in_subset" or c.callee.startswith("stir::distributable_")) and "setup" not in c.callee and "end_distributable" not in c.callee]
        if not sweeps:
            continue
        defs = LocalDefs(f)
        sub = {d: defs.single_def(d) for d in defs.decl}
        member = f.cls == CLS
        for i, c in enumerate(sweeps):
            args = [key(a.strip(), False, sub) for a in c.call_args()]
            fid = f.qn + "(" + f.sig[:30] + ")"
            short = c.callee.split("::")[-1]
            if member:
                ok = any(args[j] in ["(- %s)" % m for m in M] and args[j + 1] in M for j in range(len(args) - 1))
                ctx.ob("C05.f-one-segment-range", fid, "%s@%d" % (short, i), ok, c.where(), "%s(...) runs over segments -max_segment_num_to_process .. +max_segment_num_to_process" % short if ok else "%s(...) is not given the range -max_segment_num_to_process .. +max_segment_num_to_process: this quantity is computed over other segments than the rest" % short)
                n += 1
            elif c.callee == ENUM and len(args) >= 6:
                ints = [p for p in f.params if p["t"].replace("const ", "").strip() == "int"]
                pos = {("v%d" % p["d"]): k for k, p in enumerate(f.params)}
                ok = args[2] in pos and args[3] in pos and pos[args[3]] == pos[args[2]] + 1 and args[2] in {"v%d" % p["d"] for p in ints}
                ctx.ob("C05.f-one-segment-range", fid, "%s@%d" % (short, i), ok, c.where(), "the helper hands its caller's segment range to the enumeration" if ok else "the helper replaces its caller's segment range by %s .. %s" % (key(c.call_args()[2], True), key(c.call_args()[3], True)))
                n += 1
    return n


def rule_g_prior_share_same_arguments(ctx, fns):
    """`penalised = unpenalised - prior's share` needs the prior to be asked about the SAME images: in every function of the objective
    function that combines a *_without_penalty computation with a call on the prior, the images handed to the prior as inputs are the
    function's own input parameters, in the order they are handed to the unpenalised computation, and the prior writes into a
    separate image (never into the function's output, which already holds the data part)."""
    n = 0
    seen = set()
    for f in fns:
        if f.body is None or f.is_dependent or (f.file, f.line) in seen or "GeneralisedObjectiveFunction" not in (f.cls or ""):
            continue
        wo = [c for c in f.calls() if c.k == "CXXMemberCallExpr" and c.c and c.c[0].k == "CXXThisExpr" and (c.callee or "").endswith("_without_penalty")]
        pr = [c for c in f.calls() if c.k == "CXXMemberCallExpr" and c.c and "this.prior_sptr" in key(c.c[0]) and (c.callee or "").split("::")[-1] not in ("get", "operator->", "operator*", "set_up", "check")]
        pr = [c for c in pr if len(c.call_args()) >= 2]
        if not wo or not pr:
            continue
        seen.add((f.file, f.line))
        params = {"v%d" % p["d"]: p for p in f.params}
        inputs = ["v%d" % p["d"] for p in f.params if p["t"].startswith("const ") and p["t"].rstrip().endswith("&")]
        outs = ["v%d" % p["d"] for p in f.params if not p["t"].startswith("const ") and p["t"].rstrip().endswith("&")]
        wo_inputs = [key(a.strip()) for a in wo[0].call_args() if key(a.strip()) in inputs]
        for i, c in enumerate(pr):
            a = [key(x.strip()) for x in c.call_args()]
            a_out, a_in = a[0], [x for x in a[1:] if x in params or x.lstrip("*") in params]
            ok_in = a_in == wo_inputs and all(x in inputs for x in a_in)
            ok_out = a_out.lstrip("*") not in outs
            fid = f.qn + "(" + f.sig[:40] + ")"
            ctx.ob("C05.g-prior-share-same-arguments", fid, "%s@%d" % ((c.callee or "").split("::")[-1], i), ok_in and ok_out, c.where(), "the prior is given the function's input images %s (as the unpenalised computation) and a separate output image" % [params[x]["n"] for x in a_in] if ok_in and ok_out else "the prior is asked about %s while the unpenalised computation uses %s%s: the result is not `unpenalised - prior's share`" % ([params.get(x.lstrip("*"), {}).get("n", x) for x in a_in], [params[x]["n"] for x in wo_inputs], "" if ok_out else "; the prior writes into the function's own output"))
            n += 1
    return n


RELATED = (
    "stir::ProjData::get_related_viewgrams",
    "stir::ProjData::get_empty_related_viewgrams",
    "stir::ProjDataInfo::get_empty_related_viewgrams",
)


def rule_h_tof_index_passed(ctx, fns, extra=()):
    """ProjData::get_(empty_)related_viewgrams(indices, symmetries, make_odd, timing_pos) OVERWRITES the TOF index of `indices` with its
    last argument (default 0).  Two obligations per request in the likelihood code:
      * in the objective function's own routines (which iterate over ViewgramIndices that carry their TOF index) the request passes
        `indices.timing_pos_num()` explicitly;
      * in a helper that is handed the TOF index as a separate value (distributable.cxx get_viewgrams), all requests for the same
        indices pass the SAME TOF argument, and none falls back to the default once one request names a TOF index (contradiction
        rule: measured, additive and multiplicative viewgrams of one call belong to one TOF bin).
    Otherwise every TOF bin is read from / back-projected as TOF bin 0."""
    n = 0
    seen = set()

    def related_calls(f):
        return [c for c in f.calls() if (c.callee or "") in RELATED and len(c.call_args()) == 4]

    for f in fns:
        if f.body is None or f.is_dependent or f.cls != CLS or (f.file, f.line) in seen:
            continue
        calls = [c for c in related_calls(f) if "ViewgramIndices" in (c.callee_info.get("sig") or "").split(",")[0]]
        if not calls:
            continue
        seen.add((f.file, f.line))
        for i, c in enumerate(calls):
            a = [key(x.strip()) for x in c.call_args()]
            ok = a[3] == a[0] + ".timing_pos_num()" and not c.call_args()[3].strip().get("defarg")
            ctx.ob("C05.h-tof-index-passed", f.qn + "(" + f.sig[:30] + ")", "%s@%d" % (c.callee.split("::")[-1], i), ok, c.where(), "the TOF index of the viewgram indices is passed explicitly" if ok else "the request is made with TOF index `%s` instead of the TOF index of the viewgram indices it is made for: every TOF bin uses the data of TOF bin %s" % (key(c.call_args()[3], True), key(c.call_args()[3], True)))
            n += 1
    for f in extra:
        if f.body is None or (f.file, f.line) in seen:
            continue
        calls = related_calls(f)
        if not calls:
            continue
        seen.add((f.file, f.line))
        groups = {}
        for i, c in enumerate(calls):
            groups.setdefault(key(c.call_args()[0].strip()), []).append((i, c))
        for _first, grp in groups.items():
            explicit = sorted({key(c.call_args()[3].strip(), True) for _i, c in grp if not c.call_args()[3].strip().get("defarg")})
            for i, c in grp:
                a3 = c.call_args()[3].strip()
                if not explicit:
                    # nothing in this function names a TOF index: no belief to contradict (non-TOF helper)
                    continue
                ok = not a3.get("defarg") and len(explicit) == 1
                ctx.ob("C05.h-tof-index-passed", f.qn, "%s@%d" % (c.callee.split("::")[-1], i), ok, c.where(), "same TOF index `%s` as the function's other requests for these indices" % key(a3, True) if ok else ("the request leaves the TOF index at its default (0) while the function's other requests for the same indices pass `%s`: for TOF bin k != 0 these viewgrams belong to TOF bin 0" % ", ".join(explicit) if a3.get("defarg") else "requests for the same indices pass different TOF indices: %s" % ", ".join(explicit)))
                n += 1
    return n


def rule_i_end_planes_setting_honoured(ctx, fns):
    """`zero end planes of segment 0` changes the objective function: value, gradient and sensitivity leave those planes out (the helper
    in distributable.cxx zeroes them in the measured viewgrams).  Every member of the objective function that reads MEASURED viewgrams
    itself (get_proj_data().get_related_viewgrams) must do the same, or it differentiates another function: each such read is followed,
    on every path to the function's exit, by a test of zero_seg0_end_planes whose branch fills the first and last axial position of
    the viewgrams just read with 0."""
    RULE = "C05.i-end-planes-setting-honoured"
    n = 0
    seen = set()
    for f in fns:
        if f.body is None or not f.cfg_raw or (f.file, f.body.line) in seen:
            continue
        reads = [c for c in f.calls() if (c.callee or "").endswith("ProjData::get_related_viewgrams") and c.c and "get_proj_data()" in key(c.c[0])]
        if not reads:
            continue
        seen.add((f.file, f.body.line))
        cfg = CFG(f)
        for c in reads:
            # the variable the viewgrams are stored in
            vd = next((a for a in c.ancestors() if a.k == "VarDecl"), None)
            v = "v%d" % vd.get("d") if vd is not None else None
            guards = []
            for g in f.walk():
                if g.k != "IfStmt" or len(g.c) < 2 or "zero_seg0_end_planes" not in key(g.c[0]):
                    continue
                fills = [x for x in g.c[1].walk() if x.k == "CXXMemberCallExpr" and (x.callee or "").split("::")[-1] == "fill" and x.call_args() and key(x.call_args()[-1].strip()) in ("0", "0.0")]
                ax = {"min" if "get_min_axial_pos_num" in key(x.c[0], False, None) or "min_ax" in key(x.c[0], True) else ("max" if "get_max_axial_pos_num" in key(x.c[0]) or "max_ax" in key(x.c[0], True) else "?") for x in fills}
                mentions = v is None or any(v in key(x) for x in g.c[1].walk() if x.k == "DeclRefExpr")
                if {"min", "max"} <= ax and mentions:
                    guards += [y.i for y in g.c[0].walk()]
            anchor = next((a for a in [vd] + list(c.ancestors()) if a is not None and a.i in cfg.pos), None)
            ok = bool(guards) and anchor is not None and cfg.must_pass_before_exit([anchor], lambda x: x.i in guards) is None
            ctx.ob(RULE, f.qn, "measured-viewgrams@%d" % c.line, ok, c.where(), "the end planes of segment 0 of the viewgrams read here are zeroed under zero_seg0_end_planes, as in the value and the gradient" if ok else "measured viewgrams are read here and used without regard to zero_seg0_end_planes: with that setting on, this quantity belongs to another objective function than the value and the gradient (end planes of segment 0 included)")
            n += 1
    return n


def run(ctx):
    ctx.explanation = (
        "Decides (a) by finite-domain abstract interpretation of every request function of "
        "PoissonLogLikelihoodWithLinearModelForMeanAndProjData over the two lazy set-up flags and sensitivity_uses_same_projector(), "
        "for all entry states allowed by the flag invariant: the 'internal error' branch is unreachable, the distributable_* call runs "
        "with a set-up matching the projectors it is handed, no flag is read undefined, the invariant is restored on exit - i.e. the "
        "set-up outcome does not depend on which quantity is requested first; (b) every set_* of the objective-function hierarchy "
        "that overwrites a field invalidates already_set_up with the repo's idioms (comparison before overwrite). NOT decided: every "
        "formula clause of C05 (value, gradient, sensitivity, Hessian, subset sums) - numerical."
    )
    reqs = requests()
    ctx.ex.prefetch(reqs)
    units = [ctx.ex.get(r) for r in reqs]
    if any(u is None for u in units):
        return
    fns = _insts(units[0])
    n = rule_a(ctx, fns)
    if n < 3:
        ctx.fail_broken("only %d request functions with lazy set-up found (3 confirmed by hand: gradient, value, sensitivity)" % n)
    allf = fns + _insts(units[1]) + _insts(units[2])
    rf5.check_setters(
        ctx,
        "C05.b-setters-invalidate",
        allf,
        "already_set_up",
        exempt={
            "stir::PoissonLogLikelihoodWithLinearModelForMean::set_recompute_sensitivity": "only selects whether set_up recomputes; documented as not requiring a new set_up",
            "stir::GeneralisedObjectiveFunction::set_prior_sptr": "the prior carries its own _already_set_up flag: every prior computation starts with check(), which calls error() when the new prior was not set up (GeneralisedPrior::check)",
        },
    )
    # e: sums over subsets are element-wise: every loop that walks several image iterators together (total sensitivity = sum of
    # subset sensitivities, full gradient = sum of subset gradients, ...) advances each iterator exactly once per iteration
    from engine.loops import lockstep_sweep

    lockstep_sweep(ctx, "C05.e-elementwise-sums", allf)
    ctx.require_count("C05.e-elementwise-sums", 5)
    rule_h_tof_index_passed(ctx, fns, extra=[f for f in units[3].functions if f.qn == "stir::get_viewgrams"])
    ctx.require_count("C05.h-tof-index-passed", 12)
    rule_i_end_planes_setting_honoured(ctx, fns)
    ctx.require_count("C05.i-end-planes-setting-honoured", 2)
    rule_g_prior_share_same_arguments(ctx, allf)
    ctx.require_count("C05.g-prior-share-same-arguments", 3)
    rule_f_one_segment_range(ctx, [f for f in units[0].functions if not f.is_dependent or True])
    ctx.require_count("C05.f-one-segment-range", 6)
    nd = rule_d_accumulators_start_from_zero(ctx, allf)
    dc = [f for f in units[3].functions if f.qn == "stir::distributable_computation" and f.body is not None and f.cfg_raw]
    if not dc:
        ctx.fail_broken("anchor stir::distributable_computation not found")
    else:
        rule_d_outputs_zeroed(ctx, dc[0])
    ctx.require_count("C05.d-accumulators-start-from-zero", 3)
    gv = [f for f in units[3].functions if f.qn == "stir::get_viewgrams" and f.body is not None]
    if not gv:
        ctx.fail_broken("anchor stir::get_viewgrams (distributable.cxx) not found")
    else:
        rule_c_end_planes(ctx, gv[0])
    ctx.require_count("C05.c-end-planes-zeroed-uniformly", 3)
    ctx.require_count("C05.a-setup-typestate", 13)
    ctx.require_count("C05.b-setters-invalidate", 14)
