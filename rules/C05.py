"""C05 - Poisson log-likelihood.  Decided clauses (structural only):

 a  RF4  first-request-order independence of the lazy set-up of the distributable computation: for every request
         kind and every reachable entry state of the two set-up flags, the 'internal error' branch is unreachable, the
         distributable_* computation runs with the set-up matching the projectors it is given, no flag is read
         before it was ever defined, and the flag invariant is re-established on exit.
 b  RF5  configuration setters of the objective-function hierarchy invalidate already_set_up.
"""
from engine import rf5
from engine.absint import Explorer
from engine.cfg import CFG
from engine.extract import Request
from engine.tree import key

UNIT = "src/recon_buildblock/PoissonLogLikelihoodWithLinearModelForMeanAndProjData.cxx"
CLS = "stir::PoissonLogLikelihoodWithLinearModelForMeanAndProjData"
A = "this.distributable_computation_already_setup"
L = "this.latest_setup_distributable_computation_was_with_orig_projectors"
S = "this.sensitivity_uses_same_projector()"


def requests():
    return [
        Request(UNIT, fn=[CLS + "::.*"], rec=[CLS]),
        Request("src/recon_buildblock/PoissonLogLikelihoodWithLinearModelForMean.cxx", fn=["stir::PoissonLogLikelihoodWithLinearModelForMean::.*"]),
        Request("src/recon_buildblock/GeneralisedObjectiveFunction.cxx", fn=["stir::GeneralisedObjectiveFunction::.*"]),
        Request("src/recon_buildblock/distributable.cxx", fn=["stir::get_viewgrams", "stir::zero_end_sinograms"]),
    ]


def _insts(unit):
    by = {}
    for f in unit.functions:
        by.setdefault((f.file, f.body.line if f.body is not None else f.line, f.qn), []).append(f)
    out = []
    for _k, fs in sorted(by.items()):
        inst = [f for f in fs if not f.is_dependent]
        out.append((inst or fs)[0])
    return out


def rule_a(ctx, fns):
    requesters = []
    for fn in fns:
        if fn.body is None or not fn.cfg_raw:
            continue
        reads = [n for n in fn.walk() if n.k == "MemberExpr" and key(n) in (A, L)]
        dist = [c for c in fn.calls() if c.callee and c.callee.startswith("stir::distributable_")]
        if reads and dist:
            requesters.append((fn, dist))
    ctx.stats["request_functions"] = [f.qn for f, _ in requesters]
    # invariant on entry: A false (L never defined or anything)  or  A true and L defined
    entry = [(False, "U", s) for s in (True, False)] + [(False, l, s) for l in (True, False) for s in (True, False)] + [
        (True, l, s) for l in (True, False) for s in (True, False)
    ]
    for fn, dist in requesters:
        cfg = CFG(fn)
        fid = fn.qn
        ex = Explorer(cfg, [A, L, S])
        at_call = []

        def on_el(n, s, _ex, at_call=at_call):
            if n.is_call() and n.callee and n.callee.startswith("stir::distributable_"):
                at_call.append((n, s))

        exits = ex.run(entry, on_el)
        # (i) internal-error branch unreachable
        internal = [
            (n, s)
            for kind, n, s in ex.events
            if kind == "abort" and n is not None and n.is_call() and n.callee == "stir::error" and any("internal error" in (m.get("v") or "") for m in n.walk() if m.k == "StringLiteral")
        ]
        n_internal_sites = sum(
            1 for c in fn.calls("stir::error") if any("internal error" in (m.get("v") or "") for m in c.walk() if m.k == "StringLiteral")
        )
        ctx.ob(
            "C05.a-setup-typestate",
            fid,
            "internal-error-branch",
            not internal,
            fn.where(),
            "the 'internal error: setup_distributable_computation not called' branch is unreachable for all %d entry states (%d such branches)" % (len(entry), n_internal_sites)
            if not internal
            else "reachable with entry-derived state (already_setup, latest_orig, sens_same_projector)=%s at line %d" % (internal[0][1], internal[0][0].line),
        )
        # (ii) at the computation: A true and L matches the projectors handed over
        bad = []
        for n, s in at_call:
            args = " ".join(key(a, True) for a in n.call_args()[:2])
            if "projector_pair_ptr" in args:
                want = True
            elif "sens_backprojector_sptr" in args:
                want = s[2]  # original projectors iff the sensitivity uses the same projector
            else:
                want = None
            if s[0] is not True or (want is not None and s[1] is not want):
                bad.append((n, s, want))
        ctx.ob(
            "C05.a-setup-typestate",
            fid,
            "computation-runs-with-matching-setup",
            not bad and bool(at_call),
            fn.where(),
            "%d (call,state) pairs: already_setup is true and latest_orig matches the projectors passed" % len(at_call)
            if not bad and at_call
            else ("no distributable call reached" if not at_call else "state %s at %s line %d, expected latest_orig=%s" % (bad[0][1], bad[0][0].callee, bad[0][0].line, bad[0][2])),
        )
        # (iii) no read of an undefined flag
        ureads = [(n, s) for kind, n, s in ex.events if kind == "read" and key(n) in (A, L) and s[ex.index[key(n)]] == "U"]
        ctx.ob(
            "C05.a-setup-typestate",
            fid,
            "no-read-of-undefined-flag",
            not ureads,
            fn.where(),
            "flags are read only after a definition" if not ureads else "%s read at line %d while never defined (state %s)" % (key(ureads[0][0], True), ureads[0][0].line, ureads[0][1]),
        )
        # (iv) invariant on exit
        badexit = [s for s in exits if s[0] is True and s[1] == "U"]
        ctx.ob("C05.a-setup-typestate", fid, "exit-invariant", not badexit and bool(exits), fn.where(), "already_setup => latest_orig defined on every normal exit (%d exit states)" % len(exits))
    # set_up_before_sensitivity resets A on all normal paths
    for fn in fns:
        if fn.short == "set_up_before_sensitivity" and fn.cfg_raw:
            cfg = CFG(fn)
            resets = {n.i for n in fn.walk() if n.k == "BinaryOperator" and n.op == "=" and key(n.c[0]) == A and n.c[1].strip().k == "CXXBoolLiteralExpr" and n.c[1].strip().get("v") is False}
            # only paths returning Succeeded::yes matter; conservatively: all normal paths after the projector set_up call
            setups = [c for c in fn.calls() if c.callee and c.callee.endswith("ProjectorByBinPair::set_up")]
            wit = cfg.must_pass_before_exit(setups, lambda n: n.i in resets) if setups else [0]
            ctx.ob("C05.a-setup-typestate", fn.qn, "set_up-resets-flag", wit is None, fn.where(), "after (re)setting up the projectors every normal path clears already_setup" if wit is None else "path %s" % wit)
    return len(requesters)


def rule_c_end_planes(ctx, fn):
    """get_viewgrams: when segment-0 end planes are to be zeroed, every viewgram set handed back (measured, additive,
    multiplicative) is zeroed after its last modification - on every path, for every combination of inputs."""
    cfg = CFG(fn)
    outs = [p for p in fn.params if "RelatedViewgrams" in p["t"] and p["t"].rstrip().endswith("&") and not p["t"].startswith("const")]
    # the zeroing flag is found from the code, not by its name: the bool parameter that is known to be true at every
    # zero_end_sinograms call
    bools = {"v%d" % p["d"]: p for p in fn.params if p["t"].replace("const ", "").strip() in ("bool", "_Bool")}
    zcalls = [c for c in fn.calls() if c.callee == "stir::zero_end_sinograms"]
    if not outs or not bools:
        ctx.unrec(fn.qn, "expected by-reference RelatedViewgrams outputs and a bool end-plane flag parameter")
        return
    if not zcalls:
        for i, p in enumerate(outs):
            ctx.ob("C05.c-end-planes-zeroed-uniformly", fn.qn, "output#%d" % i, False, fn.where(), "get_viewgrams never calls zero_end_sinograms: %s is returned without end-plane zeroing" % p["n"])
        return
    cand = None
    for c in zcalls:
        here = {k for k, tv, _r in cfg.facts_at(c) if tv is True and k in bools}
        cand = here if cand is None else (cand & here)
    if not cand or len(cand) != 1:
        ctx.unrec(fn.qn, "cannot identify the end-plane flag: bool parameters true at every zero_end_sinograms call = %s" % sorted(cand or []))
        return
    zkey = cand.pop()
    z = bools[zkey]
    segkeys = {key(n) for n in fn.walk() if n.k == "BinaryOperator" and n.op == "==" and key(n.c[0].strip()).endswith(".segment_num()") and key(n.c[1].strip()) == "0"}
    if len(segkeys) != 1:
        ctx.unrec(fn.qn, "expected exactly one form of the test segment_num() == 0, found %s" % sorted(segkeys))
        return
    skey = segkeys.pop()
    ghosts = ["ghost:zeroed:%d" % i for i, p in enumerate(outs)]
    roots_ = {"v%d" % p["d"]: i for i, p in enumerate(outs)}
    ex = Explorer(cfg, [zkey, skey] + ghosts)
    from engine.tree import written_lvalues, root_of_lvalue

    def on_el(n, s, _ex):
        s2 = list(s)
        changed = False
        if n.is_call() and n.callee == "stir::zero_end_sinograms" and n.call_args():
            a0 = n.call_args()[0].strip()
            while a0.k in ("CXXConstructExpr", "Cast") and len(a0.c) == 1:
                a0 = a0.c[0].strip()  # the shared_ptr is passed by value: a copy of the same pointer
            r = root_of_lvalue(a0)
            if r in roots_:
                s2[2 + roots_[r]] = True
                changed = True
        else:
            for e in written_lvalues(n):
                r = root_of_lvalue(e)
                if r in roots_:
                    s2[2 + roots_[r]] = False
                    changed = True
        return [tuple(s2)] if changed else None

    entry = [(zv, sv) + tuple(True for _ in outs) for zv in (True, False) for sv in (True, False)]
    exits = ex.run(entry, on_el)
    for i, p in enumerate(outs):
        bad = [s for s in exits if s[0] is True and s[1] is True and s[2 + i] is not True]
        ctx.ob(
            "C05.c-end-planes-zeroed-uniformly",
            fn.qn,
            "output#%d" % i,
            not bad and bool(exits),
            fn.where(),
            "on every path with zero_seg0_end_planes and segment 0, zero_end_sinograms(%s) follows the last modification of %s (%d exit states)" % (p["n"], p["n"], len(exits))
            if not bad
            else "a path with zero_seg0_end_planes && segment_num()==0 returns %s modified but not end-plane-zeroed" % p["n"],
        )


def run(ctx):
    ctx.explanation = (
        "Decides (a) by finite-domain abstract interpretation of every request function of "
        "PoissonLogLikelihoodWithLinearModelForMeanAndProjData over the two lazy set-up flags and sensitivity_uses_same_projector(), "
        "for all entry states allowed by the flag invariant: the 'internal error' branch is unreachable, the distributable_* call runs "
        "with a set-up matching the projectors it is handed, no flag is read undefined, the invariant is restored on exit - i.e. the "
        "set-up outcome does not depend on which quantity is requested first; (b) every set_* of the objective-function hierarchy "
        "that overwrites a field invalidates already_set_up with the repo's idioms (comparison before overwrite). NOT decided: every "
        "formula clause of C05 (value, gradient, sensitivity, Hessian, subset sums) - numerical."
    )
    reqs = requests()
    ctx.ex.prefetch(reqs)
    units = [ctx.ex.get(r) for r in reqs]
    if any(u is None for u in units):
        return
    fns = _insts(units[0])
    n = rule_a(ctx, fns)
    if n < 3:
        ctx.fail_broken("only %d request functions with lazy set-up found (3 confirmed by hand: gradient, value, sensitivity)" % n)
    allf = fns + _insts(units[1]) + _insts(units[2])
    rf5.check_setters(
        ctx,
        "C05.b-setters-invalidate",
        allf,
        "already_set_up",
        exempt={
            "stir::PoissonLogLikelihoodWithLinearModelForMean::set_recompute_sensitivity": "only selects whether set_up recomputes; documented as not requiring a new set_up",
            "stir::GeneralisedObjectiveFunction::set_prior_sptr": "the prior carries its own _already_set_up flag: every prior computation starts with check(), which calls error() when the new prior was not set up (GeneralisedPrior::check)",
        },
    )
    gv = [f for f in units[3].functions if f.qn == "stir::get_viewgrams" and f.body is not None]
    if not gv:
        ctx.fail_broken("anchor stir::get_viewgrams (distributable.cxx) not found")
    else:
        rule_c_end_planes(ctx, gv[0])
    ctx.require_count("C05.c-end-planes-zeroed-uniformly", 3)
    ctx.require_count("C05.a-setup-typestate", 13)
    ctx.require_count("C05.b-setters-invalidate", 14)
