"""C07 - OSMAPOSL sub-iteration.  Decided clauses (structure of update_estimate; the EM formula itself is numerical):

 a  RF2  order and operands of one sub-iteration: one subset number is drawn; gradient-plus-sensitivity of THAT subset is
         computed into the update image; it is divided by the sensitivity of the same subset (or the MAP denominator built
         from it); the (possibly limited) update multiplies the current image last
 b  RF11 MAP denominator: additive  clamp(g/N + s, s/10, 10 s),  multiplicative  s * clamp(1 + g, 1/10, 10)
         (closed-form evaluation of the loop body), and the division by it follows that loop
"""
import re

import sympy

from engine.algebra import LocalDefs
from engine.cfg import CFG
from engine.extract import Request
from engine.tree import key

SRC = "src/iterative/OSMAPOSL/OSMAPOSLReconstruction.cxx"


def requests():
    return [
        Request(SRC, fn=["stir::OSMAPOSLReconstruction::update_estimate"]),
        Request(SRC, fn=["stir::OSMAPOSLReconstruction::apply_multiplicative_update", "stir::divide"], files=["/repo/src/iterative/OSMAPOSL/.*", "/repo/src/include/stir/numerics/divide.inl"]),
        Request(SRC, fn=["stir::OSMAPOSLReconstruction::set_up"]),
        Request("src/recon_buildblock/IterativeReconstruction.cxx", fn=["stir::IterativeReconstruction::get_subset_num", "stir::IterativeReconstruction::end_of_iteration_processing"]),
    ]


def eval_body(stmts, den, sens, extra, defs=None):
    """symbolic value of *denominator_iter after a straight-line loop body"""
    g, s = sympy.Symbol("g", real=True), sympy.Symbol("s", positive=True)
    cur = g

    def ex(n):
        n = n.strip()
        k = key(n)
        if k == den:
            return cur
        if k == sens:
            return s
        if n.k == "IntegerLiteral":
            return sympy.Integer(n.get("v"))
        if n.k == "FloatingLiteral":
            return sympy.nsimplify(n.get("v"), rational=True)
        if n.k == "DeclRefExpr" and n.get("dk") in ("local", "staticlocal") and defs is not None:
            init = defs.single_def(n.get("d"))  # a named constant: `static const float lower_bound_factor = 1 / 10.F;`
            if init is not None:
                return ex(init)
        if n.k == "BinaryOperator" and n.op in ("+", "-", "*", "/"):
            a, b = ex(n.c[0]), ex(n.c[1])
            if n.op == "/":
                from engine.algebra import int_aware_div

                return int_aware_div(n, a, b)  # 1 / 10 is 0 in C++
            return {"+": a + b, "-": a - b, "*": a * b}[n.op]
        if n.k in ("CXXFunctionalCastExpr", "CXXConstructExpr", "CXXTemporaryObjectExpr") and len(n.c) == 1:
            return ex(n.c[0])  # elemT(10): value-preserving conversion of a constant
        if n.k == "CallExpr" and n.callee in ("std::max", "std::min") and len(n.c) == 2:
            a, b = ex(n.c[0]), ex(n.c[1])
            return sympy.Max(a, b) if n.callee == "std::max" else sympy.Min(a, b)
        if n.k == "CXXMemberCallExpr" and (n.callee or "").endswith("get_num_subsets"):
            return extra.setdefault("N", sympy.Symbol("N", positive=True))
        if n.k == "MemberExpr" and n.get("n") == "num_subsets":
            return extra.setdefault("N", sympy.Symbol("N", positive=True))
        raise ValueError(k)

    for st in stmts:
        if st.k in ("BinaryOperator", "CompoundAssignOperator") and key(st.c[0].strip()) == den:
            r = ex(st.c[1])
            cur = {"=": r, "+=": cur + r, "*=": cur * r, "/=": cur / r, "-=": cur - r}[st.op]
        elif st.k in ("UnaryOperator", "CXXOperatorCallExpr") and st.op in ("++", "--"):
            continue
        else:
            raise ValueError("statement " + key(st, True)[:60])
    return cur, g, s


def rule_c_elementwise(ctx, f_update, others):
    """the voxelwise operations really are voxelwise: in every loop that walks several iterators together (denominator/sensitivity,
    image/update, numerator/denominator of divide) each iterator is advanced exactly once per iteration on every path; divide()
    sets an element to zero exactly when both |denominator| and |numerator| are below the threshold and divides otherwise; the
    multiplicative update multiplies each image element by the corresponding update element."""
    from engine.loops import lockstep

    n = 0
    for f in [f_update] + others:
        if f.body is None or not f.cfg_raw:
            continue
        cfg = CFG(f)
        k = 0
        for lp in f.walk():
            if lp.k not in ("WhileStmt", "ForStmt"):
                continue
            problems, incs = lockstep(cfg, lp)
            if len(incs) < 2:
                continue
            ctx.ob("C07.c-elementwise", f.qn, "lockstep@%d" % k, not problems, "%s:%d" % (f.file, lp.line), "%d iterators advance exactly once per iteration on every path" % len(incs) if not problems else "; ".join(problems))
            k += 1
            n += 1
    for f in others:
        if f.short == "divide" and f.body is not None and len(f.params) == 4:
            num_b, num_e, den_b, small = ("v%d" % p["d"] for p in f.params)
            ifs = [m for m in f.walk() if m.k == "IfStmt" and len(m.c) == 3]
            ok = False
            det = "no if/else deciding between zero and quotient"
            if len(ifs) == 1:
                g = ifs[0]
                ck = key(g.c[0].strip())
                zero = [m for m in g.c[1].walk() if m.k in ("BinaryOperator", "CXXOperatorCallExpr") and m.op == "=" and key(m.c[1].strip()) in ("0", "0.0")]
                quot = [m for m in g.c[2].walk() if m.k in ("CompoundAssignOperator", "CXXOperatorCallExpr") and m.op == "/="]
                both = ck.startswith("(&& ") and ck.count("(<= ") == 2 and "fabs(" in ck
                ok = both and len(zero) == 1 and len(quot) == 1 and key(zero[0].c[0].strip()) == key(quot[0].c[0].strip())
                det = "element = 0 iff |denominator| <= threshold and |numerator| <= threshold, else element /= denominator" if ok else "divide: condition %s, %d zero assignments, %d divisions" % (ck[:120], len(zero), len(quot))
            ctx.ob("C07.c-elementwise", "stir::divide", "zero-only-when-both-small", ok, f.where(), det)
            n += 1
        if f.short == "apply_multiplicative_update" and f.body is not None and len(f.params) == 2:
            muls = [m for m in f.walk() if m.k in ("CompoundAssignOperator", "CXXOperatorCallExpr") and m.op == "*="]
            defs = LocalDefs(f)
            inl = defs.binding_map()
            ok = False
            det = "%d `*=`" % len(muls)
            if len(muls) == 1:
                l, r = muls[0].c[0].strip(), muls[0].c[1].strip()
                # *image_iter *= *update_iter with the iterators initialised from the two parameters
                def src(e):
                    for m in e.walk():
                        if m.k == "DeclRefExpr" and m.get("dk") == "local":
                            vd = defs.decl.get(m.get("d"))
                            if vd is not None and vd.c:
                                return key(vd.c[0].strip())
                    return "?"

                ok = src(l).startswith("v%d.begin_all" % f.params[0]["d"]) and src(r).startswith("v%d.begin_all" % f.params[1]["d"])
                det = "image element *= update element (iterators start at %s / %s)" % (src(l), src(r))
            ctx.ob("C07.c-elementwise", f.qn, "image-times-update", ok, f.where(), det)
            n += 1
    return n


def rule_d_filters_keep_positivity(ctx, f):
    """Non-negative images stay non-negative also when inter-update / inter-iteration filters are used only because set_up() wraps
    each filter into ChainedDataProcessor(filter, ThresholdMinToSmallPositiveValueDataProcessor): on every path to the filter's own
    set_up (i.e. whenever the filter is going to be used) the member must have been replaced by such a chain - unconditionally, whatever
    the user's filter is."""
    cfg = CFG(f)
    n = 0
    for fld in ("inter_update_filter_ptr", "inter_iteration_filter_ptr"):
        fk = "this." + fld
        sets = [c for c in f.calls() if c.k == "CXXMemberCallExpr" and (c.callee or "").endswith("::set_up") and c.c and key(c.c[0].strip()) in ("*" + fk, fk) and c.i in cfg.pos]
        if not sets:
            ctx.unrec(f.qn, "the filter %s is never set up in set_up()" % fld)
            continue

        def chains(m):
            if not (m.k == "CXXMemberCallExpr" and (m.callee or "").split("::")[-1] == "reset" and m.c and key(m.c[0].strip()) == fk and m.call_args()):
                return False
            news = [x for x in m.call_args()[0].walk() if x.is_call() and "ChainedDataProcessor" in (x.callee or "")]
            if not news:
                return False
            a = [y.strip() for y in news[0].call_args()]

            def unwrap(y):
                # copies / conversions of a shared_ptr denote the same pointer
                while y.k in ("CXXConstructExpr", "CXXTemporaryObjectExpr", "Cast") and len(y.c) == 1:
                    y = y.c[0].strip()
                return y

            a = [unwrap(y) for y in a]
            if len(a) != 2 or key(a[0]) != fk:
                return False
            # the second member is a positivity thresholding
            return "ThresholdMinToSmallPositiveValueDataProcessor" in (a[1].type or "") or any("ThresholdMinToSmallPositiveValueDataProcessor" in (y.callee or "") for y in a[1].walk() if y.is_call())

        w = cfg.must_pass_from_entry(sets, chains)
        ctx.ob("C07.d-filters-keep-positivity", f.qn, fld, w is None, sets[0].where(), "whenever %s is used it has been wrapped as Chained(filter, positivity thresholding), on every path" % fld if w is None else "a path sets up and uses %s without chaining the positivity thresholding after it: negative filter lobes enter the estimate" % fld)
        n += 1
    return n


def rule_e_restartable_schedule(ctx, fns):
    """A run resumed at sub-iteration k+1 repeats the uninterrupted run only if everything a sub-iteration does is a function of the
    sub-iteration NUMBER (and of settings both runs share), not of where the run started: the subset a sub-iteration uses
    (get_subset_num, ordered schedule) and the decisions of end_of_iteration_processing (filter / save intervals) must not depend on
    start_subiteration_num."""
    n = 0
    seen = set()
    for f in fns:
        if f.body is None or f.is_dependent or f.short not in ("get_subset_num", "end_of_iteration_processing", "update_estimate") or f.short in seen:
            continue
        seen.add(f.short)
        defs = LocalDefs(f)
        sub = {d: defs.single_def(d) for d in defs.decl}
        bad = []
        if f.short == "get_subset_num":
            # what is returned and what it is computed from (locals inlined); the random-order branch is excluded (not restartable by
            # design: a new random order is drawn)
            for r in f.walk():
                if r.k == "ReturnStmt" and r.c:
                    e = r.c[0].strip()
                    parts = [e]
                    if e.k == "ConditionalOperator" and "randomise_subset_order" in key(e.c[0]):
                        parts = [e.c[2]]
                    for p_ in parts:
                        if "this.start_subiteration_num" in key(p_.strip(), False, sub):
                            bad.append(p_)
        else:
            # (also the update itself - seed C07-5: the inter-update filter skipped for the first update of a run)
            for m in f.walk():
                if m.k in ("IfStmt", "ConditionalOperator", "WhileStmt") and m.c and re.search(r"this\.start_subiteration_num|get_start_subiteration_num\(", key(m.c[0].strip(), False, sub)):
                    bad.append(m.c[0])
        ctx.ob("C07.e-restartable-schedule", f.qn, "independent-of-start-subiteration", not bad, (bad[0] if bad else f).where(), "what sub-iteration k does depends on k and shared settings only" if not bad else "`%s` depends on start_subiteration_num: a run resumed at sub-iteration k+1 does something else at sub-iteration k+1 than the uninterrupted run" % key(bad[0].strip(), True)[:160])
        n += 1
    return n


def run(ctx):
    ctx.explanation = (
        "Decides the structure of OSMAPOSLReconstruction::update_estimate: (a) a single subset number is drawn per sub-iteration and "
        "used for the gradient-plus-sensitivity, for the subset sensitivity it is divided by, and nothing else; the update image is "
        "computed, divided, optionally limited and only then multiplied into the current image, on every path; (b) on the prior branch "
        "the denominator loop computes clamp(g/N + s, s/10, 10 s) (additive) resp. s*clamp(1+g, 1/10, 10) (multiplicative) - the "
        "documented bounds - and the division by it follows the loop. NOT decided: the EM update formula, non-negativity, "
        "monotonicity, count preservation (numerical); restart equivalence (a history property)."
    )
    reqs = requests()
    ctx.ex.prefetch(reqs)
    u = ctx.ex.get(reqs[0])
    if u is None:
        return
    fs = [f for f in u.functions if f.body is not None and not f.is_dependent and f.cfg_raw]
    if not fs:
        ctx.fail_broken("anchor OSMAPOSLReconstruction::update_estimate (instantiation) not found")
        return
    f = fs[0]
    cfg = CFG(f)
    # ---- a
    gs = [c for c in f.calls() if (c.callee or "").endswith("::get_subset_num")]
    grad = [c for c in f.calls() if (c.callee or "").endswith("::compute_sub_gradient_without_penalty_plus_sensitivity")]
    sens = [c for c in f.calls() if (c.callee or "").endswith("::get_subset_sensitivity")]
    divs = [c for c in f.calls() if c.callee == "stir::divide"]
    app = [c for c in f.calls() if (c.callee or "").endswith("apply_multiplicative_update")]
    ok = len(gs) == 1 and len(grad) == 1 and len(sens) == 1 and len(app) == 1 and len(divs) == 2
    det = "calls: get_subset_num x%d, gradient x%d, sensitivity x%d, divide x%d, apply x%d" % (len(gs), len(grad), len(sens), len(divs), len(app))
    from engine.algebra import LocalDefs

    defs = LocalDefs(f)
    inl = defs.binding_map()  # single-definition locals and references by what they are bound to: names never matter
    K = lambda x: key(x, False, inl)
    d0 = dden = None
    if ok:
        sub = [m for m in f.walk() if m.k == "VarDecl" and m.c and any(x is gs[0] for x in m.c[0].walk())]
        sv = "v%d" % sub[0].get("d") if sub and defs.single_def(sub[0].get("d")) is not None else None
        a_g = [key(a) for a in grad[0].call_args()]
        a_s = [key(a) for a in sens[0].call_args()]
        same_subset = sv is not None and a_g[-1] == sv and a_s == [sv]
        upd = K(grad[0].call_args()[0])
        order = cfg.dominates(grad[0], divs[0]) and cfg.dominates(grad[0], divs[1]) and cfg.must_pass_from_entry(app, lambda x: x.i in {d.i for d in divs}) is None
        target = K(app[0].call_args()[1]) == upd and all(K(d.call_args()[0]) == upd + ".begin_all()" and K(d.call_args()[1]) == upd + ".end_all()" for d in divs)
        ok = same_subset and order and target
        det = "one subset number used for gradient and sensitivity=%s; gradient -> divide -> apply order=%s; same update image=%s" % (same_subset, order, target)
    ctx.ob("C07.a-subiteration-structure", f.qn, "order-and-operands", ok, f.where(), det)
    # prior-zero branch divides by the subset sensitivity
    if len(divs) == 2 and sens:
        for d in divs:
            facts = cfg.facts_at(d)
            if any("prior_is_zero()" in k and tv is True for k, tv, _r in facts):
                d0 = d
            else:
                dden = d
        ok = d0 is not None and K(d0.call_args()[2]) == K(sens[0]) + ".begin_all()"
        ctx.ob("C07.a-subiteration-structure", f.qn, "no-prior:divide-by-subset-sensitivity", ok, (d0 or divs[0]).where(), "without prior the update is divided by the sensitivity of the drawn subset" if ok else "prior-free branch does not divide by the subset sensitivity")
    # ---- b
    # the denominator image is the object the prior branch divides by; its iterator and the sensitivity's iterator are found by
    # what they are initialised from
    den_obj = None
    if dden is not None:
        m = re.fullmatch(r"(\*?v\d+)\.begin_all\(\)", key(dden.call_args()[2]))
        den_obj = m.group(1) if m else None
    den_it = sens_it = None
    for d_, vd in defs.decl.items():
        if not vd.c:
            continue
        ik = key(vd.c[0].strip())
        ikl = K(vd.c[0])
        if den_obj is not None and ik == den_obj + ".begin_all()":
            den_it = d_
        if sens and ikl == K(sens[0]) + ".begin_all()":
            sens_it = d_
    if den_it is None or sens_it is None:
        ctx.unrec(f.qn, "cannot find the iterators over the MAP denominator image and over the subset sensitivity (by their initialisers)")
        return
    loops = [m for m in f.walk() if m.k == "WhileStmt" and any(x.k == "DeclRefExpr" and x.get("d") == den_it for x in m.c[0].walk())]
    want = {}
    for lp in loops:
        facts = cfg.facts_at(lp.c[0]) if lp.c[0].i in cfg.pos else frozenset()
        model = None
        for k, tv, _r in facts:
            m = re.search(r'this\.MAP_model "(\w+)"', k.replace("(== ", ""))
            if m and tv:
                model = m.group(1)
        body = lp.c[1]
        stmts = [s for s in (body.c if body.k == "CompoundStmt" else [body])]
        try:
            extra = {}
            val, g, s = eval_body(stmts, "*v%d" % den_it, "*v%d" % sens_it, extra, defs)
        except ValueError as ex:
            ctx.unrec(f.qn, "MAP denominator loop at line %d: %s" % (lp.line, ex))
            continue
        N = extra.get("N", sympy.Symbol("N", positive=True))
        if model == "additive":
            target = sympy.Max(sympy.Min(g / N + s, 10 * s), s / 10)
        elif model == "multiplicative":
            target = s * sympy.Max(sympy.Min(1 + g, 10), sympy.Rational(1, 10))
        else:
            ctx.unrec(f.qn, "denominator loop at line %d is not under a MAP_model == \"additive\"/\"multiplicative\" test" % lp.line)
            continue
        # both sides are compositions of Min/Max of functions affine in g (piecewise linear, homogeneous in (g, s)):
        # they are equal iff they agree on every linear piece.  With s and N fixed (several values) the breakpoints of either side
        # are where two of their affine atoms cross; compare exactly (rationals) at the breakpoints, between them and
        # beyond them, for several N.
        ok = sympy.simplify(val - target) == 0
        if not ok:
            ok = True
            for Nv, sv in ((1, 1), (2, 3), (5, sympy.Rational(1, 4)), (3, 20)):
                v1 = val.subs({s: sv, N: Nv})
                t1 = target.subs({s: sv, N: Nv})
                atoms_ = set()
                for e in (v1, t1):
                    for a in sympy.preorder_traversal(e):
                        if isinstance(a, (sympy.Min, sympy.Max)):
                            atoms_ |= set(a.args)
                atoms_ = [a for a in atoms_ if not isinstance(a, (sympy.Min, sympy.Max))]
                bps = set()
                for i_, a in enumerate(atoms_):
                    for b in atoms_[i_ + 1 :]:
                        sol = sympy.solve(sympy.Eq(a, b), g)
                        bps |= {x for x in sol if x.is_real}
                bps = sorted(bps)
                pts = set(bps)
                if bps:
                    pts |= {bps[0] - 1, bps[-1] + 1}
                    pts |= {(bps[i_] + bps[i_ + 1]) / 2 for i_ in range(len(bps) - 1)}
                else:
                    pts = {sympy.Integer(-3), sympy.Integer(0), sympy.Integer(3)}
                for p in pts:
                    if sympy.nsimplify(v1.subs(g, p)) != sympy.nsimplify(t1.subs(g, p)):
                        ok = False
        ctx.ob("C07.b-MAP-denominator", f.qn, "clamp:" + model, bool(ok), "%s:%d" % (f.file, lp.line), "denominator = %s" % val if ok else "denominator %s is not %s" % (val, target))
        want[model] = lp
        # the division by the denominator follows the loop
        dd = [dden] if dden is not None else []
        okd = bool(dd) and lp.c[0].i in cfg.pos and cfg.must_pass_from_entry([lp.c[1].c[0]] if lp.c[1].c else [], lambda x: False) is not None
        after = bool(dd) and cfg.paths_avoiding([cfg.pos[dd[0].i]], lambda x: False, target_pred=lambda x, lp=lp: x.i == lp.c[0].i, to_exit=False) is None
        ctx.ob("C07.b-MAP-denominator", f.qn, "divide-after-clamp:" + model, after, dd[0].where() if dd else f.where(), "the division by the denominator comes after the clamping loop (the loop is not reachable from it)" if after else "division precedes the clamping loop")
    u2 = ctx.ex.get(reqs[1])
    if u2 is not None:
        seen2, others = set(), []
        for g in u2.functions:
            if g.body is not None and not g.is_dependent and (g.file, g.line) not in seen2:
                seen2.add((g.file, g.line))
                others.append(g)
        rule_c_elementwise(ctx, f, others)
        ctx.require_count("C07.c-elementwise", 5)
    u3 = ctx.ex.get(reqs[2])
    su = [g for g in (u3.functions if u3 is not None else []) if g.short == "set_up" and g.body is not None and not g.is_dependent and g.cfg_raw]
    if not su:
        ctx.fail_broken("anchor OSMAPOSLReconstruction::set_up (instantiation) not found")
    else:
        rule_d_filters_keep_positivity(ctx, su[0])
        ctx.require_count("C07.d-filters-keep-positivity", 2)
    u4 = ctx.ex.get(reqs[3])
    if u4 is None:
        return
    rule_e_restartable_schedule(ctx, u4.functions + [f for f in u.functions if f.short == "update_estimate"])
    ctx.require_count("C07.e-restartable-schedule", 3)
    ctx.require_count("C07.a-subiteration-structure", 2)
    ctx.require_count("C07.b-MAP-denominator", 4)
