"""C02 - projection data are one coherent array.  Decided clauses (DESIGN.md section 4, C02):

 a  RF1  every bin coordinate that enters the address arithmetic of ProjDataFromStream::get_offset /
         ProjDataInMemory::get_index is range-checked (failure -> error()) on every path to a return
 b  RF8  the address expression is a mixed-radix layout in the order the storage-order enumerator names;
         the segment base advances by a whole segment; the TOF stride is the size of all segments
 c  RF12 every seek / buffer copy takes its position from the one address function
 d  RF2  every stream writer flushes before returning normally
 e  RF3  read_data / write_data results are used
"""
import re

import sympy

from engine.algebra import Algebra, LocalDefs, data_slice
from engine.cfg import CFG, relations
from engine.extract import Request
from engine.tree import key

PDFS = "src/buildblock/ProjDataFromStream.cxx"
PDIM = "src/buildblock/ProjDataInMemory.cxx"

# slots filled from ProjDataInfo's accessor naming: coordinate accessor of Bin -> (min, max, extent) accessors
COORDS = {
    "segment_num": ("get_min_segment_num", "get_max_segment_num", None),
    "axial_pos_num": ("get_min_axial_pos_num", "get_max_axial_pos_num", "get_num_axial_poss"),
    "view_num": ("get_min_view_num", "get_max_view_num", "get_num_views"),
    "tangential_pos_num": ("get_min_tangential_pos_num", "get_max_tangential_pos_num", "get_num_tangential_poss"),
    "timing_pos_num": ("get_min_tof_pos_num", "get_max_tof_pos_num", None),
}

ADDRESS_FUNCTIONS = [
    (PDFS, "stir::ProjDataFromStream::get_offset"),
    (PDIM, "stir::ProjDataInMemory::get_index"),
]


def requests():
    return [
        Request(PDFS, fn=["stir::ProjDataFromStream::.*", "stir::detail::checked_seek.*"], enum=["stir::ProjDataFromStream::StorageOrder"]),
        Request(PDIM, fn=["stir::ProjDataInMemory::.*", "stir::detail::copy_data_.*"]),
        Request(PDFS, fn=["stir::ProjDataFromStream::.*"], config="openmp"),
        Request("src/IO/interfile.cxx", fn=["stir::write_basic_interfile_PDFS_header"]),
        Request("src/IO/InterfileHeader.cxx", fn=["stir::InterfileHeader::.*", "stir::MinimalInterfileHeader::.*", "stir::InterfilePDFSHeader::.*"], files=["/repo/src/IO/InterfileHeader.cxx"]),
        Request("src/IO/InterfilePDFSHeaderSPECT.cxx", fn=["stir::InterfilePDFSHeaderSPECT::.*"], files=["/repo/src/IO/InterfilePDFSHeaderSPECT.cxx"]),
        Request("src/buildblock/interfile_keyword_functions.cxx", fn=["stir::standardise_interfile_keyword"]),
        Request("src/IO/interfile.cxx", fn=["stir::write_interfile_.*", "stir::write_basic_interfile_image_header"], files=["/repo/src/IO/interfile.cxx"]),
        Request("src/buildblock/ProjData.cxx", fn=["stir::ProjData::.*", "stir::apply_func"], files=["/repo/src/buildblock/ProjData.cxx"]),
        Request("src/buildblock/ExamInfo.cxx", fn=["stir::ExamInfo::.*"]),
        # file-local helpers of the two backing stores (whatever they are called)
        Request(PDFS, fn=["stir::[A-Za-z_0-9]+"], files=["/repo/src/buildblock/ProjDataFromStream\\.cxx"]),
        Request(PDIM, fn=["stir::[A-Za-z_0-9]+"], files=["/repo/src/buildblock/ProjDataInMemory\\.cxx"]),
    ]


def _coord_calls(fn, nodes):
    """calls <bin param>.<coord>() among nodes -> {coord: key}"""
    out = {}
    for n in nodes:
        if n.k == "CXXMemberCallExpr" and n.callee and n.c and "Bin" in n.c[0].type:
            # the accessors live in Bin and its bases (SegmentIndices, ViewgramIndices, ...): match by resolved name
            c = n.callee.split("::")[-1]
            if c in COORDS and n.c[0].k == "DeclRefExpr" and n.c[0].get("dk") == "param":
                out.setdefault(c, key(n))
    return out


def _bound_ok(rels, ckey, bound_method, lower, segkey):
    """is there a relation ckey >= <...bound_method(...)> (lower) / <= (upper) among rels?"""
    want = (">=", ">", "==") if lower else ("<=", "<", "==")
    # the bound must be exactly <this data set>.bound_method(<bin's own segment>?) - nothing added to it
    pat = re.compile(r"^(this|\*this\.proj_data_info_sptr|\*this\.get_proj_data_info_sptr\(\))\." + re.escape(bound_method) + r"\((.*)\)$")
    for a, op, b in rels:
        if a != ckey or op not in want:
            continue
        m = pat.match(b)
        if not m:
            continue
        inner = m.group(2)
        if inner and (segkey is None or inner != segkey):
            continue
        return True
    return False


def rule_a_bounds(ctx, fn):
    cfg = CFG(fn)
    rets = [r for r in cfg.return_nodes() if cfg.is_reachable(r) and r.c]
    if not rets:
        ctx.unrec(fn.qn, "no reachable return with a value")
        return
    defs = LocalDefs(fn)
    for r in rets:
        used = _coord_calls(fn, data_slice(fn, [r.c[0]], defs))
        # also coordinates used on the way in subscripts / find() of the slice are included by data_slice
        facts = cfg.facts_at(r)
        rels = relations(facts)
        segkey = used.get("segment_num")
        for c, ckey in sorted(used.items()):
            mn, mx, _ = COORDS[c]
            lo = _bound_ok(rels, ckey, mn, True, segkey)
            hi = _bound_ok(rels, ckey, mx, False, segkey)
            for which, ok, m in (("lower", lo, mn), ("upper", hi, mx)):
                ctx.ob(
                    "C02.a-bounds",
                    fn.qn,
                    "%s:%s" % (c, which),
                    ok,
                    where="%s:%d" % (fn.file, r.line),
                    detail=(
                        "coordinate %s() enters the returned address but no %s-bound test against %s() with an error() exit "
                        "dominates this return" % (c, which, m)
                        if not ok
                        else "bounded by %s()" % m
                    ),
                )


def _enclosing_order_names(ret):
    """enumerator names of StorageOrder mentioned by the nearest enclosing if whose THEN branch holds ret"""
    child = ret
    for a in ret.ancestors():
        if a.k == "IfStmt":
            # children: [cond, then, else?]
            conds = [c for c in a.c]
            if len(conds) >= 2 and _contains(conds[1], child):
                names = [
                    m.get("n")
                    for m in conds[0].walk()
                    if m.k == "DeclRefExpr" and m.get("dk") == "enumconst" and "StorageOrder" in (m.get("qn") or "") or (m.k == "DeclRefExpr" and m.get("dk") == "enumconst" and "_TangPos" in (m.get("n") or ""))
                ]
                if names:
                    return names
        child = a
    return []


def _contains(anc, n):
    while n is not None:
        if n is anc:
            return True
        n = n.parent
    return False


def _roles(fn):
    """Role names for the locals of the address functions, found from what is done with them (never from their identifiers):
       sum / num_axial_pos_offset : the local accumulated with += inside a for loop (per-segment sizes)
       index                      : the local bounding that loop (i < index)
       i                          : that loop's variable
       segment_offset             : the local advanced with += outside any loop (TOF block)
       timing_index               : the local multiplying offset_3d_data in that advance"""
    roles = {}
    writes_tof_stride = any(n.k == "BinaryOperator" and n.op == "=" and key(n.c[0]) == "this.offset_3d_data" for n in fn.walk())
    for n in fn.walk():
        if n.k == "CompoundAssignOperator" and n.op == "+=" and n.c[0].strip().k == "DeclRefExpr" and n.c[0].strip().get("dk") == "local":
            d = n.c[0].strip().get("d")
            loops = [a for a in n.ancestors() if a.k == "ForStmt"]
            if loops:
                roles.setdefault(d, "sum" if writes_tof_stride else "num_axial_pos_offset")
                lp = loops[0]
                for m in lp.c[0].walk():
                    if m.k == "VarDecl":
                        roles.setdefault(m.get("d"), "i")
                c = lp.c[1].strip()
                if c.k == "BinaryOperator" and c.op == "<" and c.c[1].strip().k == "DeclRefExpr" and c.c[1].strip().get("dk") == "local":
                    roles.setdefault(c.c[1].strip().get("d"), "index")
            else:
                roles.setdefault(d, "segment_offset")
                for m in n.c[1].walk():
                    if m.k == "DeclRefExpr" and m.get("dk") == "local":
                        roles.setdefault(m.get("d"), "timing_index")
    return roles


def rule_b_layout(ctx, fn, fixed_order=None):
    cfg = CFG(fn)
    rets = [r for r in cfg.return_nodes() if cfg.is_reachable(r) and r.c]
    R = _roles(fn)
    alg = Algebra(fn, names=R)
    for r in rets:
        E = alg.expr(r.c[0])
        # segment_offset is conditionally advanced by the TOF block (checked by _check_tof_add): substitute its initialiser
        so = [x for x in E.free_symbols if x.name == "segment_offset"]
        if so:
            sd = [d for d in alg.defs.decl.values() if R.get(d.get("d")) == "segment_offset" and d.c]
            if sd:
                E = E.subs(so[0], alg.expr(sd[0].c[0]) + alg.sym("timing_index") * alg.sym("this.offset_3d_data"))
        E = sympy.expand(E)
        names = _enclosing_order_names(r)
        if fixed_order:
            order = fixed_order
        else:
            if any("AxialPos_View" in n for n in names) and not any("View_AxialPos" in n for n in names):
                order = ("axial_pos_num", "view_num", "tangential_pos_num")
            elif any("View_AxialPos" in n for n in names) and not any("AxialPos_View" in n for n in names):
                order = ("view_num", "axial_pos_num", "tangential_pos_num")
            else:
                ctx.unrec(fn.qn, "return at line %d is not under a branch selecting one storage order (%s)" % (r.line, names))
                continue
        tag = "+".join(sorted(set(names))) if names else "in-memory"
        # symbols
        csym = {}
        nsym = {}
        for s in E.free_symbols:
            nm = s.name
            for c, (mn, mx, ext) in COORDS.items():
                if re.search(r"\." + c + r"\(\)$", nm):
                    csym[c] = s
                if ext and re.search(r"(^|\.)" + ext + r"\(", nm):
                    nsym[c] = s
        where = "%s:%d" % (fn.file, r.line)
        missing = [c for c in order if c not in csym]
        if missing:
            ctx.ob("C02.b-layout", fn.qn, "%s:coordinates" % tag, False, where, "address does not depend on %s" % missing)
            continue
        stride = {c: sympy.expand(sympy.diff(E, csym[c])) for c in order}
        ok_lin = all(sympy.diff(E, csym[c], 2) == 0 for c in order)
        ctx.ob("C02.b-layout", fn.qn, "%s:linear" % tag, ok_lin, where, "address is affine in the bin coordinates" if ok_lin else "address not affine in coordinates")
        # offsets are relative to the minimum index: E(c=min) has no c-term  <=>  E contains (c - min_c)*stride
        for c in order:
            mn = COORDS[c][0]
            mins = [s for s in E.free_symbols if re.search(r"(^|\.)" + mn + r"\(", s.name)]
            ok = False
            if len(mins) == 1:
                ok = sympy.expand(sympy.diff(E, mins[0]) + stride[c]) == 0
            ctx.ob(
                "C02.b-layout", fn.qn, "%s:%s:zero-based" % (tag, c), ok, where, "coordinate enters as (%s - %s())*stride" % (c, mn) if ok else "coordinate %s not taken relative to %s()" % (c, mn)
            )
        inner, mid, outer = order[2], order[1], order[0]
        elem = stride[inner]
        ok_elem = not any(s in elem.free_symbols for s in list(nsym.values()) + list(csym.values())) and elem != 0
        ctx.ob("C02.b-layout", fn.qn, "%s:%s:unit-stride" % (tag, inner), ok_elem, where, "innermost stride = %s" % elem)
        for lo, hi in ((inner, mid), (mid, outer)):
            ok = lo in nsym and sympy.expand(stride[hi] - stride[lo] * nsym[lo]) == 0
            ctx.ob(
                "C02.b-layout",
                fn.qn,
                "%s:stride(%s)=stride(%s)*extent(%s)" % (tag, hi, lo, lo),
                ok,
                where,
                "stride(%s)=%s, stride(%s)=%s, extent(%s)=%s" % (hi, stride[hi], lo, stride[lo], lo, nsym.get(lo)),
            )
        # segment base: symbol accumulated over the preceding segments times the size of one axial position
        acc = [s for s in E.free_symbols if s.name == "num_axial_pos_offset"]
        ok = False
        det = "no accumulated axial-position count of preceding segments in the address"
        if len(acc) == 1:
            seg_stride = sympy.expand(sympy.diff(E, acc[0]))
            if outer == "axial_pos_num":
                # a segment is n_ax(seg) outermost slices: one axial position of the prefix sum = one outermost stride
                ok = sympy.expand(seg_stride - stride[outer]) == 0
                det = "per-axial-position size of a segment = %s; stride(%s) = %s" % (seg_stride, outer, stride[outer])
            else:
                whole = sympy.expand(stride[outer] * nsym[outer]) if outer in nsym else None
                nax = nsym.get("axial_pos_num")
                ok = whole is not None and nax is not None and sympy.expand(seg_stride * nax - whole) == 0
                det = "per-axial-position size of a segment = %s; stride(%s)*extent = %s" % (seg_stride, outer, whole)
        ctx.ob("C02.b-layout", fn.qn, "%s:segment-base" % tag, ok, where, det)
        # TOF block stride
        tsyms = [s for s in E.free_symbols if s.name == "timing_index"]
        if tsyms:
            tstride = sympy.expand(sympy.diff(E, tsyms[0]))
            ok = tstride.is_Symbol and tstride.name == "this.offset_3d_data"
            ctx.ob("C02.b-layout", fn.qn, "%s:tof-stride" % tag, ok, where, "TOF index multiplies %s" % tstride)
    # prefix-sum loop feeding num_axial_pos_offset and the TOF conditional add are checked structurally
    _check_prefix_loop(ctx, fn)
    _check_tof_add(ctx, fn)


def _check_prefix_loop(ctx, fn):
    """num_axial_pos_offset = sum_{i<index} get_num_axial_poss(segment_sequence[i]); index = position of the bin's segment"""
    ok = False
    R = _roles(fn)
    det = "no loop accumulating get_num_axial_poss(segment_sequence[i]) for i in [0,index)"
    for n in fn.walk():
        if n.k != "ForStmt":
            continue
        init, cond, inc, body = n.c[0], n.c[1], n.c[2], n.c[3]
        adds = [m for m in body.walk() if m.k == "CompoundAssignOperator" and m.op == "+=" and key(m.c[0], R) == "num_axial_pos_offset"]
        if not adds:
            continue
        rhs = key(adds[0].c[1], R)
        iv = None
        for m in init.walk():
            if m.k == "VarDecl" and m.c and key(m.c[0]) == "0":
                iv = R.get(m.get("d")) or "v%d" % m.get("d")
        ck = key(cond, R)
        ik = key(inc, R)
        ok = (
            iv is not None
            and ck == "(< %s index)" % iv
            and ik in ("(++post %s)" % iv, "(++ %s)" % iv)
            and re.fullmatch(r"this\.get_num_axial_poss\(this\.segment_sequence\[%s\]\)" % iv, rhs) is not None
        )
        det = "loop %s; %s; body += %s" % (ck, ik, rhs)
        # index must be the position of the bin's own segment in segment_sequence
        defs = LocalDefs(fn)
        idx = [d for d in defs.decl.values() if R.get(d.get("d")) == "index"]
        if idx and idx[0].c:
            ik2 = key(idx[0].c[0], R)
            ok = ok and "std::find(" in ik2 and "this.segment_sequence.begin()" in ik2 and "segment_num()" in ik2 and ik2.startswith("(- ")
            det += "; index = " + ik2[:120]
        else:
            ok = False
    ctx.ob("C02.b-layout", fn.qn, "segment-prefix-sum", ok, fn.where(), det)


def _check_tof_add(ctx, fn):
    """segment_offset += timing_index * offset_3d_data where timing_index is the position of the bin's TOF index"""
    R = _roles(fn)
    adds = [
        m
        for m in fn.walk()
        if m.k == "CompoundAssignOperator" and m.op == "+=" and key(m.c[0], R) == "segment_offset"
    ]
    if not adds:
        ctx.ob("C02.b-layout", fn.qn, "tof-block-add", False, fn.where(), "no TOF block offset added to segment_offset")
        return
    for m in adds:
        alg = Algebra(fn, names=R, inline=False)
        e = sympy.expand(alg.expr(m.c[1]))
        ok = set(s.name for s in e.free_symbols) == {"timing_index", "this.offset_3d_data"} and sympy.expand(e - alg.sym("timing_index") * alg.sym("this.offset_3d_data")) == 0
        # timing_index definition
        blk = m
        tdef = None
        for a in m.ancestors():
            for d in a.find(lambda x: x.k == "VarDecl" and R.get(x.get("d")) == "timing_index"):
                tdef = d
            if tdef is not None:
                break
        if tdef is None or not tdef.c:
            ok = False
            tk = "?"
        else:
            tk = key(tdef.c[0], R)
            ok = ok and "std::find(" in tk and "this.timing_poss_sequence.begin()" in tk and "timing_pos_num()" in tk and tk.startswith("(- ")
        ctx.ob("C02.b-layout", fn.qn, "tof-block-add", ok, "%s:%d" % (fn.file, m.line), "segment_offset += %s ; timing_index = %s" % (e, tk[:100]))


def rule_b_tof_stride_def(ctx, fn, with_elem):
    """offset_3d_data := (sum over all segments of n_ax(seg)*n_views*n_tang) [* element size]"""
    target = None
    for n in fn.walk():
        if n.k == "BinaryOperator" and n.op == "=" and key(n.c[0]) == "this.offset_3d_data":
            target = n
    if target is None:
        ctx.unrec(fn.qn, "no assignment to offset_3d_data")
        return
    R = _roles(fn)
    alg = Algebra(fn, names=R, inline=False)
    e = sympy.expand(alg.expr(target.c[1]))
    names = sorted(s.name for s in e.free_symbols)
    if with_elem:
        ok = len(names) == 2 and "sum" in names and any("size_in_bytes" in x for x in names) and sympy.total_degree(e) == 2 if hasattr(sympy, "total_degree") else False
        if not ok:
            p = sympy.Poly(e, *e.free_symbols) if e.free_symbols else None
            ok = p is not None and len(names) == 2 and "sum" in names and any("size_in_bytes" in x for x in names) and p.total_degree() == 2 and len(p.terms()) == 1 and p.terms()[0][1] == 1
    else:
        ok = names == ["sum"] and e == alg.sym("sum")
    ctx.ob("C02.b-layout", fn.qn, "offset_3d_data:definition", ok, "%s:%d" % (fn.file, target.line), "offset_3d_data = %s" % e)
    # the loop
    okl = False
    det = "no loop over all segments accumulating n_ax(seg)*n_views*n_tang into sum"
    for n in fn.walk():
        if n.k != "ForStmt":
            continue
        init, cond, inc, body = n.c
        adds = [m for m in body.walk() if m.k == "CompoundAssignOperator" and m.op == "+=" and key(m.c[0], R) == "sum"]
        if not adds:
            continue
        iv = None
        ivinit = None
        for m in init.walk():
            if m.k == "VarDecl" and m.c:
                iv, ivinit = R.get(m.get("d")) or "v%d" % m.get("d"), key(m.c[0], R)
        term = sympy.expand(alg.expr(adds[0].c[1]))
        tn = sorted(s.name for s in term.free_symbols)
        ck, ik = key(cond, R), key(inc, R)
        okl = (
            iv is not None
            and ivinit.endswith("get_min_segment_num()")
            and re.fullmatch(r"\(<= %s .*get_max_segment_num\(\)\)" % iv, ck) is not None
            and ik in ("(++ %s)" % iv, "(++post %s)" % iv)
            and tn == sorted(["this.get_num_axial_poss(%s)" % iv, "this.get_num_tangential_poss()", "this.get_num_views()"])
            and sympy.Poly(term, *term.free_symbols).total_degree() == 3
            and len(sympy.Poly(term, *term.free_symbols).terms()) == 1
            and sympy.Poly(term, *term.free_symbols).terms()[0][1] == 1
        )
        det = "for %s=%s; %s; %s: sum += %s" % (iv, ivinit, ck, ik, term)
        # the assignment must come after the loop: loop dominates assignment
        cfg = CFG(fn)
        okl = okl and cfg.dominates(cond, target)
    ctx.ob("C02.b-layout", fn.qn, "offset_3d_data:sum-loop", okl, fn.where(), det)


SEEKS = {"stir::detail::checked_seekg", "stir::detail::checked_seekp"}
RAW_SEEKS = re.compile(r"std::basic_[io]stream::seek[gp]$")


def rule_c_single_address_map(ctx, pdfs, pdim):
    n = 0
    for fn in pdfs.functions:
        if fn.cls != "stir::ProjDataFromStream":
            continue
        for c in fn.calls():
            if c.callee in SEEKS:
                off = c.call_args()[2]
                k = key(off.strip())
                ok = re.fullmatch(r"this\.get_offset\([A-Za-z_0-9]+\)", k) is not None
                ctx.ob("C02.c-one-address-map", fn.qn, "seek@%s" % c.callee.split("::")[-1], ok, c.where(), "offset argument = %s" % k)
                n += 1
            elif c.callee and RAW_SEEKS.search(c.callee):
                ctx.ob("C02.c-one-address-map", fn.qn, "raw-seek", False, c.where(), "raw %s outside checked_seek*" % c.callee)
    for fn in pdim.functions:
        if fn.cls != "stir::ProjDataInMemory":
            continue
        for c in fn.calls():
            if c.callee in ("stir::detail::copy_data_from_buffer", "stir::detail::copy_data_to_buffer"):
                off = c.call_args()[2]
                k = key(off.strip())
                ok = re.fullmatch(r"this\.get_index\([A-Za-z_0-9]+\)", k) is not None
                ctx.ob("C02.c-one-address-map", fn.qn, "copy@%s" % c.callee.split("::")[-1], ok, c.where(), "offset argument = %s" % k)
                n += 1
            elif c.callee and re.search(r"get_(const_)?data_ptr$", c.callee) and key(c.call_object(), True) == "this.buffer":
                # raw pointer into the buffer: only begin()/end()-style whole-buffer uses are expected
                par = c.parent
                whole = par is not None and par.k in ("VarDecl", "ReturnStmt", "CallExpr", "CXXMemberCallExpr")
                arith = par is not None and par.k == "BinaryOperator"
                if arith:
                    k2 = key(par, True)
                    ok = re.search(r"this\.get_index\(", k2) is not None or re.search(r"size_all\(\)", k2) is not None
                    ctx.ob("C02.c-one-address-map", fn.qn, "raw-pointer-arith", ok, c.where(), "buffer pointer arithmetic %s" % k2[:100])


def _stream_writes(fn):
    return [c for c in fn.calls() if c.callee == "stir::write_data" and c.call_args() and "sino_stream" in key(c.call_args()[0], True)]


def rule_d_flush(ctx, pdfs):
    for fn in pdfs.functions:
        if fn.cls != "stir::ProjDataFromStream":
            continue
        ws = _stream_writes(fn)
        if not ws:
            continue
        cfg = CFG(fn)

        def is_flush(n):
            return n.k == "CXXMemberCallExpr" and n.callee and n.callee.endswith("::flush") and "sino_stream" in key(n.c[0], True)

        wit = cfg.must_pass_before_exit(ws, is_flush)
        ctx.ob(
            "C02.d-flush-before-return",
            fn.qn + "(" + fn.sig + ")",
            "write_data->flush",
            wit is None,
            fn.where(),
            "every path from a write_data(*sino_stream,..) to a normal return passes sino_stream->flush()"
            if wit is None
            else "path from write_data to normal return without sino_stream->flush(): blocks %s" % wit,
        )


def rule_e_results_used(ctx, units):
    for u in units:
        for fn in u.functions:
            if fn.cls not in ("stir::ProjDataFromStream", "stir::ProjDataInMemory"):
                continue
            for c in fn.calls():
                if c.callee in ("stir::read_data", "stir::write_data"):
                    p = c.parent
                    used = p is not None and p.k not in ("CompoundStmt", "ForStmt", "IfStmt", "WhileStmt") or (p is not None and p.k == "IfStmt" and p.c and p.c[0] is c)
                    ctx.ob("C02.e-io-result-used", fn.qn + "(" + fn.sig + ")", c.callee.split("::")[-1] + "-result", used, c.where(), "result used in %s" % (p.k if p is not None else "?"))


PER_SEGMENT_ACCESSORS = ("get_num_axial_poss", "get_min_ring_difference", "get_max_ring_difference", "get_min_axial_pos_num", "get_max_axial_pos_num")


def rule_g_header_segment_order(ctx, fn):
    """write_basic_interfile_PDFS_header: the reader pairs the per-segment lists (axial sizes, min/max ring difference)
    by position with the segment order of the data in the stream, so every per-segment value written must be taken for
    the segments in get_segment_sequence_in_stream() order."""
    defs = LocalDefs(fn)
    n = 0
    for c in fn.calls():
        short = (c.callee or "").split("::")[-1]
        if short not in PER_SEGMENT_ACCESSORS or not c.call_args():
            continue
        # only values that are streamed into the header
        streamed = any(a.k == "CXXOperatorCallExpr" and a.op == "<<" for a in c.ancestors())
        if not streamed:
            continue
        arg = c.call_args()[0]
        if arg.strip().k == "IntegerLiteral":
            continue  # a scalar key of a single-segment format (e.g. SPECT `matrix size [2]` for segment 0), not a per-segment list
        sl = data_slice(fn, [arg], defs)
        ok = any(m.is_call() and (m.callee or "").endswith("get_segment_sequence_in_stream") for m in sl)
        ctx.ob(
            "C02.g-header-segment-order",
            fn.qn,
            "%s(%s)@%d" % (short, key(arg, True), n),
            ok,
            c.where(),
            "segment argument is drawn from get_segment_sequence_in_stream()" if ok else "per-segment header value written for segment `%s`, which does not come from the stream's segment sequence" % key(arg, True),
        )
        n += 1
    return n


GETTERS = ("get_sinogram", "get_viewgram", "get_segment_by_sinogram", "get_segment_by_view", "get_bin_value", "get_related_viewgrams")


def rule_i_scaled_once(ctx, pdfs):
    """Values in the file are stored divided by scale_factor.  Every read path applies the factor exactly once: data that came
    from read_data is multiplied by scale_factor before it is returned (on every path, and not twice), and data obtained from another
    getter of the same object - which has already applied the factor - is not multiplied again."""
    n = 0
    seen = set()
    for f in pdfs.functions:
        if f.cls != "stir::ProjDataFromStream" or f.body is None or not f.cfg_raw or f.short not in GETTERS or (f.file, f.line) in seen:
            continue
        seen.add((f.file, f.line))
        cfg = CFG(f)
        R = [c for c in f.calls() if c.callee == "stir::read_data" and c.i in cfg.pos]
        M = [m for m in f.walk() if m.k in ("CompoundAssignOperator", "CXXOperatorCallExpr") and m.op == "*=" and len(m.c) == 2 and key(m.c[1].strip()) == "this.scale_factor" and m.i in cfg.pos]
        Dg = [c for c in f.calls() if c.k == "CXXMemberCallExpr" and c.c and c.c[0].k == "CXXThisExpr" and (c.callee or "").split("::")[-1] in GETTERS and c.i in cfg.pos]
        if not R and not Dg:
            continue
        fid = f.qn + "(" + f.sig[:40] + ")"
        mids = {m.i for m in M}
        if R:
            w = cfg.must_pass_before_exit(R, lambda x: x.i in mids)
            twice = any(cfg.paths_avoiding([cfg.pos[m.i]], lambda x: False, target_pred=lambda x, m=m: x.i in mids and x.i != m.i, to_exit=False) is not None for m in M)
            ok = w is None and not twice
            ctx.ob("C02.i-scale-applied-once", fid, "raw-read-then-scaled", ok, R[0].where(), "data from read_data is multiplied by scale_factor exactly once before every normal return" if ok else ("a path returns data read from the stream without multiplying by scale_factor" if w is not None else "scale_factor can be applied twice"))
            n += 1
        if Dg:
            again = [d for d in Dg if cfg.paths_avoiding([cfg.pos[d.i]], lambda x: False, target_pred=lambda x: x.i in mids, to_exit=False) is not None]
            ctx.ob("C02.i-scale-applied-once", fid, "delegated-data-not-rescaled", not again, (again[0] if again else Dg[0]).where(), "data obtained from %s (already scaled) is not multiplied by scale_factor again" % sorted({(d.callee or "").split("::")[-1] for d in Dg}) if not again else "data obtained from %s already carries the scale factor and is multiplied by scale_factor again on a path" % (again[0].callee or "").split("::")[-1])
            n += 1
    return n


def rule_j_written_with_scale(ctx, pdfs):
    """the counterpart of rule i for writers: what is stored is value / scale_factor, so every write_data call of a setter receives a
    scale that is (a local copy of) this->scale_factor, and a scale changed by write_data is treated as a failure"""
    from engine.algebra import LocalDefs

    n = 0
    seen = set()
    for f in pdfs.functions:
        if f.cls != "stir::ProjDataFromStream" or f.body is None or not f.cfg_raw or (f.file, f.line) in seen:
            continue
        W = [c for c in f.calls() if c.callee == "stir::write_data" and len(c.call_args()) >= 4]
        if not W:
            continue
        seen.add((f.file, f.line))
        defs = LocalDefs(f)
        fid = f.qn + "(" + f.sig[:40] + ")"
        for i, c in enumerate(W):
            a = c.call_args()[3].strip()
            ok = False
            det = "scale argument is %s" % key(a, True)
            if a.k == "DeclRefExpr" and a.get("dk") == "local":
                d = a.get("d")
                srcs = set()
                vd = defs.decl.get(d)
                if vd is not None and vd.c:
                    srcs.add(key(vd.c[0].strip()))
                for w in defs.writes.get("v%d" % d, []):
                    if w.k in ("BinaryOperator",) and w.op == "=":
                        srcs.add(key(w.c[1].strip()))
                    # write_data itself may update its in/out scale argument; that is what the check below is for
                ok = srcs == {"this.scale_factor"}
                det = "scale passed to write_data is initialised from %s" % sorted(srcs)
                # a changed scale is detected
                tests = [m for m in f.walk() if m.k == "BinaryOperator" and m.op in ("!=", "==") and {key(m.c[0].strip()), key(m.c[1].strip())} == {"v%d" % d, "this.scale_factor"}]
                if ok and not tests:
                    ok = False
                    det += "; but a scale changed by write_data is not compared with scale_factor"
            ctx.ob("C02.j-written-with-scale", fid, "write_data@%d" % i, ok, c.where(), det if ok else "values are not stored divided by the data set's scale_factor: " + det)
            n += 1
    return n


# the ProjData interface: what the int parameters of a getter mean, by position (bool parameters skipped) -> slot of the Bin constructor
# (segment, view, axial position, tangential position, TOF index).  This is the public virtual interface of ProjData, not a local name.
GETTER_SLOTS = {
    "get_viewgram": (1, 0, 4),
    "get_sinogram": (2, 0, 4),
    "get_segment_by_sinogram": (0, 4),
    "get_segment_by_view": (0, 4),
}
# index accessors of the piece a setter is handed -> slot
PIECE_SLOTS = {
    "Viewgram": {"get_segment_num": 0, "get_view_num": 1, "get_timing_pos_num": 4},
    "Sinogram": {"get_segment_num": 0, "get_axial_pos_num": 2, "get_timing_pos_num": 4},
    "SegmentBySinogram": {"get_segment_num": 0, "get_timing_pos_num": 4},
    "SegmentByView": {"get_segment_num": 0, "get_timing_pos_num": 4},
}
MIN_OF_SLOT = {1: "get_min_view_num", 2: "get_min_axial_pos_num", 3: "get_min_tangential_pos_num"}


def rule_k_address_names_the_piece(ctx, units):
    """Reading piece X returns piece X: the Bin whose address a getter/setter requests is built from EVERY index of the piece asked for
    (segment, view or axial position, TOF index - getters: their parameters by the ProjData interface's positions; setters: the index
    accessors of the piece they are handed), each in its own slot of the Bin constructor, the other coordinates starting at the data's
    minimum; and a getter constructs the piece it returns from the same indices.  A Bin built without the TOF index addresses TOF bin 0."""
    n = 0
    for u, cls, addr in units:
        seen = set()
        for fn in u.functions:
            if fn.cls != cls or fn.body is None or fn.is_dependent or (fn.file, fn.line) in seen:
                continue
            reqs_ = [c for c in fn.calls() if (c.callee or "") == addr and c.call_args() and c.call_args()[0].strip().k == "DeclRefExpr" and c.call_args()[0].strip().get("dk") == "local"]
            if not reqs_:
                continue
            seen.add((fn.file, fn.line))
            defs = LocalDefs(fn)
            sub = {d: defs.single_def(d) for d in defs.decl}
            for bd in sorted({c.call_args()[0].strip().get("d") for c in reqs_}):
                vd = defs.decl.get(bd)
                ctor = vd.c[0].strip() if vd is not None and vd.c else None
                fid = fn.qn + "(" + fn.sig[:40] + ")"
                if ctor is None or ctor.k != "CXXConstructExpr":
                    ctx.unrec(fid, "the Bin of the address request is not constructed in place")
                    continue
                args = [a.strip() for a in ctor.c]
                slots = {i: key(a, False, sub) for i, a in enumerate(args)}
                want = {}
                piece = None
                if fn.short in GETTER_SLOTS:
                    ints = [pp for pp in fn.params if pp["t"].replace("const ", "").strip() == "int"]
                    m = GETTER_SLOTS[fn.short]
                    if len(ints) != len(m):
                        ctx.unrec(fid, "getter with %d int parameters (interface has %d)" % (len(ints), len(m)))
                        continue
                    want = {slot: "v%d" % pp["d"] for slot, pp in zip(m, ints)}
                else:
                    pps = [pp for pp in fn.params if any(re.search(r"\b%s<" % t, pp["t"]) for t in PIECE_SLOTS)]
                    if len(pps) != 1:
                        continue
                    piece = [t for t in PIECE_SLOTS if re.search(r"\b%s<" % t, pps[0]["t"])][0]
                    want = {slot: "v%d.%s()" % (pps[0]["d"], acc) for acc, slot in PIECE_SLOTS[piece].items()}
                problems = []
                if len(args) < 5 or "int" not in (args[4].type or ""):
                    problems.append("the Bin is built without a TOF index (TOF bin 0 is addressed whatever was asked for)")
                for slot, w in sorted(want.items()):
                    if slot < len(args) and slots.get(slot) != w:
                        problems.append("slot %d of the Bin is `%s`, not the index of the piece asked for" % (slot, key(args[slot], True)))
                for slot, acc in MIN_OF_SLOT.items():
                    if slot in want or slot >= len(args):
                        continue
                    ok_min = re.fullmatch(r"this\.%s\((%s)?\)" % (acc, re.escape(slots.get(0, ""))), slots[slot]) is not None
                    if not ok_min:
                        problems.append("slot %d of the Bin is `%s`, not the data's minimum (%s)" % (slot, key(args[slot], True), acc))
                # the piece a getter returns is constructed from the same indices
                if fn.short in ("get_viewgram", "get_sinogram"):
                    pc = [m_ for m_ in fn.walk() if m_.k == "CXXConstructExpr" and re.search(r"\b(Viewgram|Sinogram)<", m_.type or "") and len(m_.c) in (2, 4) and "shared_ptr" in (m_.c[0].strip().type or "")]
                    first = 1 if fn.short == "get_viewgram" else 2
                    for m_ in pc[:1]:
                        if len(m_.c) == 2:
                            # constructed from the address Bin itself
                            if not (m_.c[1].strip().k == "DeclRefExpr" and m_.c[1].strip().get("d") == bd):
                                problems.append("the returned piece is constructed from another Bin than the one whose address is requested")
                            continue
                        got = [key(a.strip(), False, sub) for a in m_.c[1:]]
                        exp = [want[first], want[0], want[4]]
                        if got != exp:
                            problems.append("the returned piece is constructed for other indices than the ones requested")
                    if not pc:
                        ctx.unrec(fid, "construction of the returned piece not found")
                ok = not problems
                ctx.ob("C02.k-address-names-the-piece", fid, "Bin#%d" % bd if False else "address-bin", ok, vd.where(), "the address request is made for (segment, %s, TOF index) of the piece, other coordinates at the data's minimum" % ("view" if 1 in want else "axial position" if 2 in want else "whole segment") if ok else "; ".join(problems))
                n += 1
    return n


SEGMENT_GETTERS = ("get_segment_by_view", "get_segment_by_sinogram", "get_empty_segment_by_view", "get_empty_segment_by_sinogram")


def rule_l_whole_data_loops_cover_tof(ctx, unit):
    """Operations on a whole data set (fill, sums, norms, arithmetic, copies) walk over segments; for TOF data every such walk must
    also run over ALL TOF bins and ask for the segment OF THAT BIN: each segment request made inside a loop over the segments names, as
    its TOF index, the variable of a loop get_min_tof_pos_num()..get_max_tof_pos_num() (step 1) that encloses the request - never the
    default (bin 0)."""
    from engine.loops import bounds as loop_bounds

    n = 0
    seen = set()
    for fn in unit.functions:
        if fn.body is None or fn.is_dependent and False or (fn.file, fn.line) in seen:
            continue
        if not fn.file.endswith("/ProjData.cxx"):
            continue
        defs = LocalDefs(fn)
        sub = {d: defs.single_def(d) for d in defs.decl}
        loops = []
        for lp in fn.walk():
            if lp.k != "ForStmt":
                continue
            d = loop_bounds(lp, sub)
            if not d:
                continue
            init, upper = d["init"], d["upper"]
            kind = None
            if re.search(r"get_min_tof_pos_num\(\)$", init) and re.search(r"get_max_tof_pos_num\(\)$", upper) and str(d.get("step")) == "1":
                kind = "tof"
            elif re.search(r"get_min_segment_num\(\)", init) and re.search(r"get_max_segment_num\(\)", upper):
                kind = "seg"
            if kind:
                loops.append((kind, d["d"], lp))
        segvars = {d for k, d, _l in loops if k == "seg"}
        tofvars = {d: l for k, d, l in loops if k == "tof"}
        if not segvars:
            continue
        reqs_ = []
        for m in fn.walk():
            if m.k == "CXXMemberCallExpr" and (m.callee or "").split("::")[-1] in SEGMENT_GETTERS and m.call_args() and m.call_args()[0].strip().k == "DeclRefExpr" and m.call_args()[0].strip().get("d") in segvars:
                reqs_.append((m, m.call_args()[-1].strip(), (m.callee or "").split("::")[-1]))
            elif m.k == "CXXConstructExpr" and re.search(r"\bSegmentIndices\b", m.type or "") and len(m.c) == 2 and m.c[0].strip().k == "DeclRefExpr" and m.c[0].strip().get("d") in segvars:
                reqs_.append((m, m.c[1].strip(), "SegmentIndices"))
        if not reqs_:
            continue
        seen.add((fn.file, fn.line))
        for i, (m, t, what) in enumerate(reqs_):
            ok = t.k == "DeclRefExpr" and not t.get("defarg") and t.get("d") in tofvars and any(a is tofvars[t.get("d")] for a in m.ancestors())
            ctx.ob("C02.l-whole-data-loops-cover-tof", fn.qn + "(" + fn.sig[:30] + ")", "%s@%d" % (what, i), ok, m.where(), "the segment of the TOF bin of the enclosing loop over all TOF bins" if ok else "inside a loop over the segments, the segment is requested for TOF index `%s`%s, not for the variable of an enclosing loop over all TOF bins: the operation skips or repeats TOF bins" % (key(t, True), " (default argument)" if t.get("defarg") else ""))
            n += 1
    return n


def rule_p_segment_checked_on_entry(ctx, units):
    """RF1 for the per-segment tables: ProjDataInfo's get_min/max_axial_pos_num(segment) and get_num_axial_poss(segment) index a
    table without range check (NDEBUG), and the constructors of Viewgram / Sinogram / SegmentBy* call them.  In a public member
    function of the backing stores, an int PARAMETER that reaches one of those as the segment number must have been tested against
    get_min_segment_num() / get_max_segment_num() (failure -> error) on every path to that use - directly, or by a call of a helper
    whose every normal return has made that test (F66: only the address function tested it, after the tables had been read)."""
    RULE = "C02.p-segment-checked-before-table-lookup"
    PER_SEG = {"get_min_axial_pos_num", "get_max_axial_pos_num", "get_num_axial_poss"}
    CTORS = ("stir::Viewgram::Viewgram", "stir::Sinogram::Sinogram", "stir::SegmentByView::SegmentByView", "stir::SegmentBySinogram::SegmentBySinogram")
    n = 0
    for u, cls, local in units:
        fns = {}
        for f in list(u.functions) + (list(local.functions) if local is not None else []):
            if f.body is not None and not f.is_dependent:
                fns.setdefault(f.qn, []).append(f)
        # helpers: function g with an int parameter q such that at every normal exit q >= X.get_min_segment_num() and q <= X.get_max_segment_num() hold
        helpers = {}
        for qn, fl in fns.items():
            g = fl[0]
            if not g.cfg_raw or not any(re.fullmatch(r"(const )?int", (p.get("t") or "").strip()) for p in g.params):
                continue
            if not any((c.callee or "").endswith("get_min_segment_num") for c in g.calls()):
                continue
            gcfg = CFG(g)
            for j, p in enumerate(g.params):
                if not re.fullmatch(r"(const )?int", (p.get("t") or "").strip()):
                    continue
                pk = "v%d" % p["d"]
                ok = True
                exits = gcfg.normal_exit_preds()
                if not exits:
                    ok = False
                for b in exits:
                    rels = relations(gcfg._edge_facts(b, gcfg.exit, gcfg.must_facts()[b]))  # including the branch taken to the exit
                    lo = any(a == pk and op == ">=" and b_.endswith("get_min_segment_num()") for a, op, b_ in rels)
                    hi = any(a == pk and op == "<=" and b_.endswith("get_max_segment_num()") for a, op, b_ in rels)
                    if not (lo and hi):
                        ok = False
                if ok:
                    helpers.setdefault(qn, set()).add(j)
        ctx.stats.setdefault("segment_check_helpers", []).extend(sorted(helpers))
        for qn, fl in sorted(fns.items()):
            f = fl[0]
            if f.cls != cls or f.d.get("access", 0) != 0 or not f.cfg_raw:
                continue
            ints = {p["d"]: p for p in f.params if re.fullmatch(r"(const )?int", (p.get("t") or "").strip())}
            if not ints:
                continue
            uses = {}
            for c in f.calls():
                short = (c.callee or "").split("::")[-1]
                args = c.call_args()
                if short in PER_SEG and len(args) == 1:
                    a = args[0].strip()
                    if a.k == "DeclRefExpr" and a.get("d") in ints:
                        uses.setdefault(a.get("d"), []).append(c)
                elif (c.callee or "") in CTORS:
                    # (proj_data_info, [view/axial,] segment, tof): the segment is the last but one of the int arguments
                    ia = [a.strip() for a in args if re.fullmatch(r"(const )?int", (a.strip().type or "").strip()) and not a.strip().get("defarg")]
                    cand = None
                    if "Segment" in c.callee and len(ia) >= 1:
                        cand = ia[0]
                    elif len(ia) >= 2:
                        cand = ia[1]
                    if cand is not None and cand.k == "DeclRefExpr" and cand.get("d") in ints:
                        uses.setdefault(cand.get("d"), []).append(c)
            if not uses:
                continue
            cfg = CFG(f)
            for d, cs in sorted(uses.items()):
                pk = "v%d" % d
                bad = []
                for c in cs:
                    at = c
                    while at is not None and at.i not in cfg.pos:
                        at = at.parent
                    if at is None:
                        continue
                    rels = relations(cfg.facts_at(at))
                    lo = any(a == pk and op == ">=" and b_.endswith("get_min_segment_num()") for a, op, b_ in rels)
                    hi = any(a == pk and op == "<=" and b_.endswith("get_max_segment_num()") for a, op, b_ in rels)
                    if lo and hi:
                        continue
                    # a dominating call of a checking helper with this parameter
                    hc = [h for h in f.calls() if h.callee in helpers and h.i in cfg.pos and any(j < len(h.call_args()) and key(h.call_args()[j].strip()) == pk for j in helpers[h.callee])]
                    if any(cfg.dominates(h, at) and h.i != at.i for h in hc):
                        continue
                    bad.append(c)
                ctx.ob(RULE, f.qn + "/%d" % len(f.params), "param:%s" % ints[d].get("n"), not bad, (bad or cs)[0].where(), ("`%s` is tested against the segment range before it reaches %d per-segment lookup(s)" % (ints[d].get("n"), len(cs))) if not bad else ("`%s` reaches %s at line %d as the segment number without a test against get_min_segment_num()/get_max_segment_num() on every path: the per-segment tables are indexed without range check, so a request outside the index range reads whatever lies next to them instead of being reported" % (ints[d].get("n"), (bad[0].callee or "").split("::")[-1], bad[0].line)))
                n += 1
    return n


def rule_q_sibling_writers_exam_info(ctx, image_writer, pdfs_writer):
    """The image header writer and the projection-data header writer serialise the same ExamInfo, and one parser (InterfileHeader)
    reads the exam information of both.  Every key the image writer emits with a value taken from the ExamInfo, and every
    write_interfile_* helper it hands the ExamInfo to (other than the image-specific ones), must appear in the projection-data writer
    as well - otherwise that part of the exam information does not survive writing projection data with their header (F67)."""
    from rules.C10 import _emissions

    RULE = "C02.q-header-writers-agree-on-exam-information"

    def exam_items(f):
        defs = LocalDefs(f)

        def exam(n):
            return any("ExamInfo" in (m.type or "") for m in data_slice(f, [n], defs))

        keys, helpers, allkeys = {}, {}, set()
        for k, _vect, m, _top, vals, _inline in _emissions(f):
            allkeys.add(k)
            if any(exam(v) for v in vals):
                keys.setdefault(k, m)
        for c in f.calls():
            if (c.callee or "").startswith("stir::write_interfile_") and any(exam(a) for a in c.call_args()):
                helpers.setdefault(c.callee, c)
        return keys, helpers, allkeys

    ik, ih, _ = exam_items(image_writer)
    pk, ph, pall = exam_items(pdfs_writer)
    n = 0
    for k, m in sorted(ik.items()):
        ok = k in pall
        ctx.ob(RULE, pdfs_writer.qn, "key:" + k, ok, (pdfs_writer.where() if not ok else m.where()), "written by both header writers" if ok else "the image header writer records `%s` from the exam information (line %d) and the header parser reads it for all data, but the projection-data header writer never writes it: the value is lost when projection data are written with their header and read back" % (k, m.line))
        n += 1
    for h, c in sorted(ih.items()):
        if "image" in h.split("::")[-1]:
            continue
        ok = h in ph
        ctx.ob(RULE, pdfs_writer.qn, "helper:" + h.split("::")[-1], ok, (pdfs_writer.where() if not ok else c.where()), "called by both header writers" if ok else "the image header writer hands the exam information to %s (line %d), the projection-data header writer does not: that part of the exam information is lost in the round trip" % (h.split("::")[-1], c.line))
        n += 1
    return n


def rule_r_seek_on_every_access(ctx, fns):
    """`written values are visible to an independent reader as soon as each write call returns`: the reader's std::filebuf reads ahead,
    and it is the seek that makes it drop what it has buffered.  So the positioning helpers seek on EVERY call - a path that returns
    without seekg/seekp (`already there`) serves the next read from a stale copy of the file (seed C02-6)."""
    RULE = "C02.r-reposition-on-every-access"
    n = 0
    seen = set()
    for f in fns:
        if not f.short.startswith("checked_seek") or f.body is None or not f.cfg_raw or (f.file, f.body.line) in seen:
            continue
        seen.add((f.file, f.body.line))
        cfg = CFG(f)
        seeks = {c.i for c in f.calls() if (c.callee or "").split("::")[-1] in ("seekg", "seekp") and c.i in cfg.pos}
        ok = bool(seeks) and cfg.paths_avoiding([(cfg.entry, -1)], lambda x, s_=seeks: x.i in s_) is None
        ctx.ob(RULE, f.qn, "seek-on-every-path", ok, f.where(), "every normal return has passed seekg/seekp" if ok else "a path returns without seeking: the stream keeps its read-ahead buffer, and an independent reader whose next read starts where its previous one ended is served values from before the other object's write")
        n += 1
    return n


def rule_s_stream_sequences_validated(ctx, pdfs, local):
    """`whatever the ... segment order in the stream`: the address function finds a segment / TOF bin in the stored sequence with
    std::find - for a sequence that misses a number the result is end() (data written beyond the end of the data), for one with a
    duplicate two segments share a position.  So every function that stores a caller-supplied sequence passes it (or the member)
    to a function that can reach error() (F96)."""
    RULE = "C02.s-stream-sequences-validated"
    MEMBERS = ("segment_sequence", "timing_poss_sequence")
    fns = [f for f in pdfs.functions if f.body is not None]
    allf = fns + [f for f in (local.functions if local is not None else []) if f.body is not None]
    can_error = {f.qn for f in allf if any((c.callee or "").split("::")[-1] == "error" for c in f.calls())}
    seen = set()
    n = 0
    for f in fns:
        if (f.file, f.body.line) in seen:
            continue
        params = {"v%d" % p["d"]: p for p in f.params if "vector<int" in p["t"]}
        if not params:
            continue
        stored = []  # (member, node)
        for it, node in f.inits:
            if it.get("field") in MEMBERS and node is not None and any(x.k == "DeclRefExpr" and "v%d" % x.get("d") in params for x in node.walk()):
                stored.append((it.get("field"), node))
        for m in f.walk():
            if m.k in ("BinaryOperator", "CXXOperatorCallExpr") and m.op == "=" and len(m.c) >= 2:
                lhs = key(m.c[-2].strip() if m.k == "CXXOperatorCallExpr" else m.c[0].strip())
                if lhs in tuple("this." + x for x in MEMBERS) and any(x.k == "DeclRefExpr" and "v%d" % x.get("d") in params for x in m.c[-1].walk()):
                    stored.append((lhs[5:], m))
        if not stored:
            continue
        seen.add((f.file, f.body.line))
        for member, node in stored:
            ok = False
            for c in f.calls():
                if c.callee in can_error and any(key(a.strip()) == "this." + member or key(a.strip()) in params for a in c.call_args()):
                    ok = True
            ctx.ob(RULE, f.qn + "(" + f.sig[:30] + ")", "stores:" + member, ok, node.where() if node is not None else f.where(), "the sequence is passed to a function that reports an invalid one" if ok else "a caller-supplied sequence is stored in %s unchecked: a sequence that is not a permutation of the numbers puts data beyond the end of the stream, or two pieces on one position" % member)
            n += 1
    return n


def rule_t_layout_keys_written(ctx, readers, hdrfns, writer_fns, kwfns):
    """`writing data with its header and reading the pair back yields equal ... values`: a layout attribute that the Interfile reader
    hands to the ProjDataFromStream through a setter (after construction) comes from a header key; the header writer emits that key
    (F97: `TOF bin order` was read but never written)."""
    RULE = "C02.t-layout-keys-written"
    from rules.C10 import _emissions, standardise

    emitted = set()
    for f in writer_fns:
        for e in _emissions(f):
            emitted.add(standardise(e[0]))
    # header members -> registered key
    reg = {}
    for f in hdrfns:
        for c in f.calls():
            if (c.callee or "").split("::")[-1] in ("add_key", "add_vectorised_key", "ignore_key") and len(c.call_args()) >= 2:
                a = c.call_args()
                k0 = a[0].strip()
                txt = next((x.get("v") for x in k0.walk() if x.k == "StringLiteral"), None)
                mems = [x for x in a[1].walk() if x.k == "MemberExpr"]
                if txt and mems:
                    reg.setdefault(key(mems[0], True).split(".")[-1], standardise(txt))
    n = 0
    for f in readers:
        for c in f.calls():
            cal = (c.callee or "")
            if not (cal.startswith("stir::ProjDataFromStream::set_") and c.call_args()):
                continue
            arg = key(c.call_args()[0].strip(), True)
            mem = arg.split(".")[-1]
            k = reg.get(mem)
            if k is None:
                ctx.unrec(f.qn, "C02.t: header member `%s` handed to %s has no registered key" % (arg, cal.split("::")[-1]))
                continue
            ok = k in emitted
            ctx.ob(RULE, f.qn + "(" + f.sig[:25] + ")", cal.split("::")[-1] + "<-" + k, ok, c.where(), "the header writer emits `%s`" % k if ok else "the reader takes the layout attribute from key `%s`, which the header writer never emits: data whose attribute differs from the reader's default are read back in the wrong places" % k)
            n += 1
    return n


def rule_u_header_for_every_storage_order(ctx, writer, enums):
    """`whatever the storage order`: the header writer's switch over the storage order of the data has a case for every enumerator a
    ProjDataFromStream can hold (all but Unsupported) - a missing one means that data in that layout cannot be given a header
    (F98: TOF data stored by sinogram)."""
    RULE = "C02.u-header-for-every-storage-order"
    en = [e for e in enums if e["qn"].endswith("ProjDataFromStream::StorageOrder")]
    if not en:
        ctx.fail_broken("enum ProjDataFromStream::StorageOrder not found")
        return
    names = {e["v"]: e["n"] for e in en[0]["enumerators"]}
    sw = [m for m in writer.walk() if m.k == "SwitchStmt" and "get_storage_order" in key(m.c[0], True)]
    if not sw:
        ctx.unrec(writer.qn, "C02.u: no switch over get_storage_order() in the header writer")
        return
    vals = {m.get("cv") for m in sw[0].walk() if m.k == "CaseStmt" and "cv" in m.d}
    want = {v for v, n in names.items() if n != "Unsupported"}
    missing = sorted(names[v] for v in want - vals)
    ctx.ob(RULE, writer.qn, "switch", not missing, sw[0].where(), "cases for all %d storage orders" % len(want) if not missing else "no case for %s: data in that layout cannot be written with a header although the reader supports it" % missing)


def run(ctx):
    ctx.explanation = (
        "Decides structural necessary conditions of C02 from the source: (a) all five bin coordinates are range-checked "
        "with an error() exit before they enter the address arithmetic of get_offset/get_index; (b) that arithmetic is a "
        "mixed-radix layout (stride(k+1)=stride(k)*extent(k), zero-based, segment base = whole preceding segments, TOF "
        "stride = size of all segments) in the order the StorageOrder enumerator names, so distinct in-range bins have "
        "distinct non-overlapping positions for every geometry; (c) every seek / buffer copy obtains its position from that "
        "one address function; (d) every stream writer flushes before a normal return; (e) read_data/write_data results are "
        "tested; (p) segment numbers of public get_* requests are range-checked before any per-segment table lookup; (q) the two header "
        "writers agree on the exam-information keys. NOT decided: value round trips through number-type conversion and byte swapping, header value formatting, "
        "segment conversion constructors (runtime values)."
    )
    ctx.assumptions += [
        "stir::error never returns",
        "get_num_X() == get_max_X() - get_min_X() + 1 for the ProjDataInfo accessors (naming slot table COORDS)",
        "NDEBUG build: assert() is not a guard",
    ]
    reqs = requests()
    ctx.ex.prefetch(reqs)
    pdfs, pdim, pdfs_omp, ifile, hdr, hdrspect, kwu, helpers, pdbase, examinfo, pdfs_local, pdim_local = (ctx.ex.get(r) for r in reqs)
    if pdfs is None or pdim is None:
        return
    byname = {}
    for u in (pdfs, pdim):
        for f in u.functions:
            byname.setdefault(f.qn, []).append(f)
    for src, qn in ADDRESS_FUNCTIONS:
        if qn not in byname:
            ctx.fail_broken("anchor function %s not found" % qn)
            continue
        fn = byname[qn][0]
        rule_a_bounds(ctx, fn)
        rule_b_layout(ctx, fn, fixed_order=("axial_pos_num", "view_num", "tangential_pos_num") if "InMemory" in qn else None)
    for qn, with_elem in (("stir::ProjDataFromStream::activate_TOF", True), ("stir::ProjDataInMemory::ProjDataInMemory", False)):
        fns = [f for f in byname.get(qn, []) if any(key(n.c[0]) == "this.offset_3d_data" for n in f.walk() if n.k == "BinaryOperator" and n.op == "=")]
        if not fns:
            ctx.fail_broken("no definition of offset_3d_data in %s" % qn)
            continue
        rule_b_tof_stride_def(ctx, fns[0], with_elem)
    rule_c_single_address_map(ctx, pdfs, pdim)
    rule_r_seek_on_every_access(ctx, pdfs.functions)
    ctx.require_count("C02.r-reposition-on-every-access", 2)
    rule_s_stream_sequences_validated(ctx, pdfs, pdfs_local)
    ctx.require_count("C02.s-stream-sequences-validated", 2)
    rule_p_segment_checked_on_entry(ctx, [(pdfs, "stir::ProjDataFromStream", pdfs_local), (pdim, "stir::ProjDataInMemory", pdim_local)])
    ctx.require_count("C02.p-segment-checked-before-table-lookup", 7)
    rule_k_address_names_the_piece(ctx, [(pdfs, "stir::ProjDataFromStream", "stir::ProjDataFromStream::get_offset"), (pdim, "stir::ProjDataInMemory", "stir::ProjDataInMemory::get_index")])
    ctx.require_count("C02.k-address-names-the-piece", 14)
    if pdbase is not None:
        rule_l_whole_data_loops_cover_tof(ctx, pdbase)
        ctx.require_count("C02.l-whole-data-loops-cover-tof", 16)
    rule_d_flush(ctx, pdfs)
    rule_e_results_used(ctx, [pdfs, pdim])
    hw = [f for f in (ifile.functions if ifile else []) if f.body is not None and "ProjDataFromStream" in f.sig]
    if not hw:
        ctx.fail_broken("anchor write_basic_interfile_PDFS_header(.., const ProjDataFromStream&) not found")
    else:
        rule_g_header_segment_order(ctx, hw[0])
        rule_u_header_for_every_storage_order(ctx, hw[0], pdfs.enums)
        ctx.require_count("C02.u-header-for-every-storage-order", 1)
        iw = [f for f in (helpers.functions if helpers else []) if f.short == "write_basic_interfile_image_header" and f.body is not None and "ExamInfo" in f.sig]
        if not iw:
            ctx.fail_broken("anchor write_basic_interfile_image_header(.., const ExamInfo&, ..) not found")
        else:
            rule_q_sibling_writers_exam_info(ctx, iw[0], hw[0])
            ctx.require_count("C02.q-header-writers-agree-on-exam-information", 9)
    # h: every key the projection-data header writer (and the exam-information helpers it calls) emits is registered by the reader
    # classes with the same vectorisation (the writer/reader key-table agreement of C10.a, applied to the PDFS header)
    if hdr is not None and kwu is not None and helpers is not None and hdrspect is not None:
        from rules.C10 import rule_a as header_keys_agree

        def fl(u):
            seen, out = set(), []
            for f in u.functions:
                k = (f.file, f.body.line if f.body is not None else f.line, f.qnt, f.sig)
                if k not in seen and f.body is not None:
                    seen.add(k)
                    out.append(f)
            return out

        # only the helpers the projection-data header writer really calls (resolved callees)
        called = {c.callee for f in fl(ifile) for c in f.calls() if c.callee}
        used_helpers = [f for f in fl(helpers) if f.qn in called]
        header_keys_agree(ctx, fl(ifile) + used_helpers, fl(hdr) + fl(hdrspect), fl(kwu), rule="C02.h-header-keys-agree", writers=("write_basic_interfile_PDFS_header", "write_interfile_"))
        ctx.require_count("C02.h-header-keys-agree", 25)
        rdu = ctx.ex.get(Request("src/IO/interfile.cxx", fn=["stir::read_interfile_PDFS.*"], files=["/repo/src/IO/interfile.cxx"]))
        if rdu is not None:
            rule_t_layout_keys_written(ctx, fl(rdu), fl(hdr) + fl(hdrspect), fl(ifile) + used_helpers, fl(kwu))
            ctx.require_count("C02.t-layout-keys-written", 2)
        # m, n, o: the three header-text clauses of C10 applied to the projection-data header ("writing data with its header and reading
        # the pair back yields equal geometry, exam information and values"): numbers that must come back as the same float are
        # written with max_digits10 digits (scale factor: multiplies the stored numbers; bed positions: compared exactly by
        # ProjDataInfo::operator==), the stream's formatting state is put back, values of list-valued keys are in the reader's list
        from rules.C10 import rule_k_full_precision, rule_h_header_stream_format_unchanged, rule_i_enumerated_values_agree, FULL_PRECISION_KEYS

        W = ("write_basic_interfile_PDFS_header", "write_interfile_")
        keys = dict(FULL_PRECISION_KEYS)
        keys["start vertical bed position (mm)"] = "compared exactly by ProjDataInfo::operator== (geometry equality)"
        keys["start horizontal bed position (mm)"] = "idem"
        wf = fl(ifile) + used_helpers
        rule_k_full_precision(ctx, wf, rule="C02.m-quantities-written-with-full-precision", writers=W, keys=keys)
        ctx.require_count("C02.m-quantities-written-with-full-precision", 5)
        rule_i_enumerated_values_agree(ctx, wf, fl(hdr) + fl(hdrspect), rule="C02.n-enumerated-values-agree", writers=W)
        ctx.require_count("C02.n-enumerated-values-agree", 6)
        if examinfo is not None:
            rule_h_header_stream_format_unchanged(ctx, wf, fl(examinfo), rule="C02.o-header-stream-format-unchanged")
            ctx.require_count("C02.o-header-stream-format-unchanged", 5)
    rule_i_scaled_once(ctx, pdfs)
    rule_j_written_with_scale(ctx, pdfs)
    ctx.require_count("C02.j-written-with-scale", 7)
    ctx.require_count("C02.i-scale-applied-once", 6)
    ctx.require_count("C02.g-header-segment-order", 12)
    ctx.require_count("C02.a-bounds", 20)
    ctx.require_count("C02.b-layout", 20)
    ctx.require_count("C02.c-one-address-map", 20)
    ctx.require_count("C02.d-flush-before-return", 5)
    ctx.require_count("C02.e-io-result-used", 10)
