"""C13 - bin normalisation.  Decided clauses:

 a  RF7  apply/undo of every normalisation class are duals: the same data, modified the same number of times by
         factors from the same sources, with inverse operations (mul <-> div, member->apply <-> member->undo)
 b  RF11 a chain's efficiency is the product of its members' (absent member = 1); apply/undo visit each member once
 c  RF2  every apply/undo checks the set-up (check()) before touching the data, or delegates
 d  RF5  set_up of a composite sets up its members with the same arguments and propagates failure;
         set_up is idempotent: it never updates a member from that member's own previous value
 e       a trivial normalisation's apply/undo have empty bodies
"""
import re

from engine.algebra import LocalDefs, data_slice
from engine.cfg import CFG
from engine.extract import Request
from engine.sibling import dual_compare, effects_on
from engine.tree import key, root_of_lvalue, written_lvalues

DIR = "src/recon_buildblock/"
UNITS = [
    "BinNormalisation.cxx",
    "BinNormalisationFromProjData.cxx",
    "BinNormalisationFromAttenuationImage.cxx",
    "BinNormalisationPETFromComponents.cxx",
    "ChainedBinNormalisation.cxx",
    "BinNormalisationWithCalibration.cxx",
    "BinNormalisationSPECT.cxx",
    "BinNormalisationFromECAT8.cxx",
    "BinNormalisationFromGEHDF5.cxx",
    "TrivialBinNormalisation.cxx",
]
SWAP = {
    "apply": "undo",
    "undo": "apply",
    "apply_only_first": "undo_only_first",
    "apply_only_second": "undo_only_second",
    "undo_only_first": "apply_only_first",
    "undo_only_second": "apply_only_second",
}


def requests():
    return [Request(DIR + u, fn=["stir::.*BinNormalisation.*::.*"], rec=["stir::.*BinNormalisation.*"], files=["/repo/src/recon_buildblock/.*", "/repo/src/include/stir/recon_buildblock/.*BinNormalisation.*"]) for u in UNITS]


def uniq(fns):
    seen, out = set(), []
    for f in fns:
        k = (f.file, f.body.line if f.body is not None else f.line, f.qn, f.sig)
        if k not in seen:
            seen.add(k)
            out.append(f)
    return out


def rule_a(ctx, fns):
    by = {}
    for f in fns:
        if f.body is not None and f.short in SWAP and f.params:
            by[(f.cls, f.short, f.sig)] = f
    n = 0
    for (cls, short, sig), f in sorted(by.items()):
        if not short.startswith("apply"):
            continue
        g = by.get((cls, SWAP[short], sig))
        if g is None:
            if any(k[0] == cls and k[1] == SWAP[short] for k in by):
                ctx.ob("C13.a-apply-undo-dual", cls + "::" + short + "(" + sig + ")", "has-dual", False, f.where(), "no %s overload with the same parameters" % SWAP[short])
            continue
        t1, t2 = "v%d" % f.params[0]["d"], "v%d" % g.params[0]["d"]
        e1, e2 = effects_on(f, t1), effects_on(g, t2)
        diffs = dual_compare(e1, e2, SWAP)
        # a pair with no recognised modification at all is only fine for the trivial class
        if not e1 and not e2 and "Trivial" not in cls:
            w1 = [n for n in f.walk() if any(root_of_lvalue(e) == t1 for e in written_lvalues(n))]
            if w1:
                ctx.unrec(f.qn, "modifies its argument in a way the effect extractor does not recognise (line %d)" % w1[0].line)
                continue
        ctx.ob(
            "C13.a-apply-undo-dual",
            cls + "::" + short + "(" + sig[:40] + ")",
            "dual-of-" + SWAP[short],
            not diffs,
            f.where(),
            "%d modification(s) %s mirrored by %s" % (len(e1), [e["op"] for e in e1], [e["op"] for e in e2]) if not diffs else "; ".join(diffs),
        )
        n += 1
    return n


def rule_b_chain(ctx, fns):
    for f in fns:
        if f.qn == "stir::ChainedBinNormalisation::get_bin_efficiency" and f.body is not None:
            rets = [n for n in f.walk() if n.k == "ReturnStmt" and n.c]
            ok = False
            det = "no return"
            if len(rets) == 1:
                e = rets[0].c[0].strip()
                det = key(e, True)[:200]
                binp = "v%d" % f.params[0]["d"] if f.params else "?"
                if e.k == "BinaryOperator" and e.op == "*":
                    parts = [p.strip() for p in e.c]
                    members = []
                    for p in parts:
                        if p.k == "ConditionalOperator" and len(p.c) == 3:
                            cond, a, b = key(p.c[0]), key(p.c[1].strip()), key(p.c[2].strip())
                            m = re.fullmatch(r"\(! stir::is_null_ptr\(this\.(\w+)\)\)", cond)
                            if m and a == "*this.%s.get_bin_efficiency(%s)" % (m.group(1), binp) and b in ("1", "1.0"):
                                members.append(m.group(1))
                    ok = sorted(members) == ["apply_first", "apply_second"]
            ctx.ob("C13.b-chain-product", f.qn, "efficiency=product", ok, f.where(), "returns (first? first.eff : 1) * (second? second.eff : 1)" if ok else "not the product of both members' efficiencies: " + det)
    # apply/undo of the chain: each member exactly once, guarded by its own null test
    for f in fns:
        if f.cls == "stir::ChainedBinNormalisation" and f.short in ("apply", "undo") and f.body is not None and f.params:
            t = "v%d" % f.params[0]["d"]
            eff = effects_on(f, t)
            recv = sorted(e["recv"] for e in eff if e["op"] == "call:" + f.short)
            ok = recv == ["*this.apply_first", "*this.apply_second"] or recv == ["this.apply_first", "this.apply_second"]
            ctx.ob("C13.b-chain-product", f.qn + "(" + f.sig[:30] + ")", "each-member-once", ok, f.where(), "delegates %s to %s" % (f.short, recv))


def rule_c_check_first(ctx, fns):
    n = 0
    for f in fns:
        if f.short not in ("apply", "undo") or f.body is None or not f.params or not f.cfg_raw:
            continue
        if "RelatedViewgrams" not in f.params[0]["t"]:
            continue
        if f.cls in ("stir::ChainedBinNormalisation", "stir::TrivialBinNormalisation"):
            continue
        t = "v%d" % f.params[0]["d"]
        cfg = CFG(f)
        writes = [m for m in f.walk() if m.i in cfg.pos and any(root_of_lvalue(e) == t for e in written_lvalues(m))]
        if not writes:
            continue

        def is_check(m):
            return m.k == "CXXMemberCallExpr" and (m.callee or "").endswith("BinNormalisation::check") and m.c and m.c[0].k == "CXXThisExpr"

        wit = cfg.must_pass_from_entry(writes, is_check)
        ctx.ob("C13.c-check-before-use", f.qn + "(" + f.sig[:30] + ")", "check()", wit is None, f.where(), "this->check(...) precedes every modification of the data" if wit is None else "data modified on a path that never called check()")
        n += 1
    return n


def rule_d_setup(ctx, fns):
    for f in fns:
        if f.qn == "stir::ChainedBinNormalisation::set_up" and f.body is not None:
            calls = [c for c in f.calls() if c.k == "CXXMemberCallExpr" and c.callee and c.callee.endswith("::set_up")]
            recvs = {}
            for c in calls:
                recvs[key(c.c[0], True)] = c
            pa = ["v%d" % p["d"] for p in f.params]
            ok = True
            det = []
            for mem in ("*this.apply_first", "*this.apply_second"):
                c = recvs.get(mem)
                if c is None:
                    ok = False
                    det.append("member %s is not set up" % mem)
                    continue
                args = [key(a) for a in c.call_args()]
                if args != pa:
                    ok = False
                    det.append("%s set up with %s instead of %s" % (mem, args, pa))
                p = c.parent
                used = p is not None and (p.k in ("BinaryOperator", "CXXOperatorCallExpr", "ReturnStmt", "VarDecl", "ConditionalOperator", "CXXConstructExpr", "CXXMemberCallExpr", "CallExpr", "UnaryOperator") or (p.k == "IfStmt" and p.c and p.c[0] is c))
                if not used:
                    ok = False
                    det.append("result of %s.set_up dropped" % mem)
            base = [c for c in calls if c.c and c.c[0].k == "CXXThisExpr"]
            if not base:
                ok = False
                det.append("base class set_up not called")
            ctx.ob("C13.d-setup", f.qn, "members-set-up", ok, f.where(), "base and both members set up with the caller's arguments, results propagated" if ok else "; ".join(det))
    # idempotence of every set_up in the hierarchy
    n = 0
    for f in fns:
        if f.short != "set_up" or f.body is None or "BinNormalisation" not in (f.cls or ""):
            continue
        defs = LocalDefs(f)
        bad = []
        for m in f.walk():
            for e in written_lvalues(m):
                r = root_of_lvalue(e)
                if not r.startswith("this.") or r == "this()":
                    continue
                fld = r[5:]
                if m.k in ("CompoundAssignOperator",) or (m.k == "CXXOperatorCallExpr" and m.op in ("*=", "/=", "+=", "-=")):
                    bad.append((m, fld, "updated in place (%s)" % m.op))
                elif m.k in ("BinaryOperator", "CXXOperatorCallExpr") and m.op == "=" and len(m.c) == 2:
                    sl = data_slice(f, [m.c[1]], defs)
                    if any(x.k == "MemberExpr" and x.get("mk") == "field" and x.get("n") == fld and x.c and x.c[0].k == "CXXThisExpr" for x in sl):
                        # value derived from the member's own previous value; pure re-wrapping (clone without modification) would be fine,
                        # so look for a modification of the intermediate
                        mods = [w for w in f.walk() if w is not m and any(root_of_lvalue(e2).startswith("v") and any(y.k == "DeclRefExpr" and "v%d" % y.get("d") == root_of_lvalue(e2) for y in sl) for e2 in written_lvalues(w))]
                        if mods or any(x.k in ("BinaryOperator",) and x.op in ("*", "/", "+", "-") for x in sl):
                            bad.append((m, fld, "assigned a value computed from its own previous value"))
        ctx.ob(
            "C13.d-setup",
            f.qn + "(" + f.sig[:40] + ")",
            "idempotent",
            not bad,
            f.where(),
            "no member is updated from its own previous value: calling set_up again gives the same state" if not bad else "member %s is %s at line %d: every further set_up changes it again" % (bad[0][1], bad[0][2], bad[0][0].line),
        )
        n += 1
    return n


def rule_e_trivial(ctx, units):
    for u in units:
        for f in u.functions:
            if f.cls == "stir::TrivialBinNormalisation" and f.short in ("apply", "undo") and f.body is not None:
                stmts = [n for n in f.body.walk() if n is not f.body]
                ctx.ob("C13.e-trivial-changes-nothing", f.qn, "empty-body", not stmts, f.where(), "body is empty" if not stmts else "trivial normalisation's %s has statements" % f.short)


STATE_EXEMPT = {
    "stir::BinNormalisationSPECT::resample_uniformity": "SPECT normalisation is not among the kinds C13 names; it resamples its uniformity table lazily, once, with the first caller's tangential size (side observation in DESIGN.md, not claimed)",
}


def rule_f_no_hidden_state(ctx, fns):
    """apply / undo / get_bin_efficiency (and the helpers of their own class they call) must not assign members of *this: a value
    remembered from one call (a cached clone, a remembered pointer, a flag) makes the factor used for a bin depend on what the object
    was used for before, so undo no longer multiplies a bin by ONE fixed factor.  Calls through a pointer member (the projector, the
    factor data) are not assignments of the member."""
    byqn = {}
    for f in fns:
        if f.body is not None:
            byqn.setdefault(f.qn, []).append(f)
    ENTRY = ("apply", "undo", "get_bin_efficiency", "apply_only_first", "undo_only_first", "apply_only_second", "undo_only_second")
    roots = [f for f in fns if f.body is not None and f.short in ENTRY and "BinNormalisation" in (f.cls or "")]
    seen, todo, reach = set(), [(f, f) for f in roots], []
    while todo:
        f, via = todo.pop()
        k = (f.qn, f.sig)
        if k in seen:
            continue
        seen.add(k)
        reach.append((f, via))
        for c in f.calls():
            if c.k == "CXXMemberCallExpr" and c.c and c.c[0].k == "CXXThisExpr" and c.callee in byqn:
                todo += [(g, via) for g in byqn[c.callee]]
    n = 0
    for f, via in sorted(reach, key=lambda x: (x[0].qn, x[0].sig)):
        writes = []
        for m in f.walk():
            for e in written_lvalues(m):
                e2 = e.strip()
                if e2.k == "MemberExpr" and e2.c and e2.c[0].k == "CXXThisExpr" and e2.get("mk") == "field":
                    t = e2.type or ""
                    if m.k == "CXXMemberCallExpr" and "*" in t.split("<")[0]:
                        continue  # call through a raw pointer member: the pointee, not the member
                    writes.append((e2.get("n"), m))
        fid = f.qn + "(" + f.sig[:30] + ")"
        if f.qn in STATE_EXEMPT:
            ctx.note("C13.f exempt %s: %s" % (f.qn, STATE_EXEMPT[f.qn]))
            continue
        ctx.ob("C13.f-no-hidden-state", fid, "assigns-no-member", not writes, (writes[0][1] if writes else f).where() if writes else f.where(), "assigns no member of the normalisation object (reached from %s)" % via.short if not writes else "member %s is assigned at line %d in a function reached from %s: what a bin is multiplied with depends on the object's history" % (writes[0][0], writes[0][1].line, via.qn))
        n += 1
    return n


def rule_g_setup_rebuilds_derived_data(ctx, fns):
    """Data that apply/undo/get_bin_efficiency read and that set_up() derives from the object's inputs (e.g. the efficiency data built
    from the components) must be rebuilt by EVERY successful set_up(): the inputs can be changed in place between two set_up() calls
    (non-const accessors), so a set_up() that skips the rebuild when 'nothing seems to have changed' leaves stale factors."""
    byqn = {}
    for f in fns:
        if f.body is not None:
            byqn.setdefault(f.qn, []).append(f)

    def closure(roots):
        seen, todo, out = set(), list(roots), []
        while todo:
            f = todo.pop()
            k = (f.qn, f.sig)
            if k in seen:
                continue
            seen.add(k)
            out.append(f)
            for c in f.calls():
                if c.k == "CXXMemberCallExpr" and c.c and c.c[0].k == "CXXThisExpr" and c.callee in byqn:
                    todo += [g for g in byqn[c.callee] if g.cls == f.cls]
        return out

    def fields_read(fs):
        return {m.get("n") for f in fs for m in f.walk() if m.k == "MemberExpr" and m.get("mk") == "field" and m.c and m.c[0].k == "CXXThisExpr"}

    def fields_written(f):
        out = set()
        for m in f.walk():
            for e in written_lvalues(m):
                e2 = e.strip()
                if e2.k == "MemberExpr" and e2.get("mk") == "field" and e2.c and e2.c[0].k == "CXXThisExpr":
                    if m.k == "CXXMemberCallExpr" and "*" in (e2.type or "").split("<")[0]:
                        continue
                    out.add(e2.get("n"))
        return out

    n = 0
    classes = sorted({f.cls for f in fns if f.cls and "BinNormalisation" in f.cls})
    for cls in classes:
        users = closure([f for f in fns if f.cls == cls and f.body is not None and f.short in ("apply", "undo", "get_bin_efficiency")])
        sus = [f for f in fns if f.cls == cls and f.short == "set_up" and f.body is not None and f.cfg_raw]
        if not users or not sus:
            continue
        used = fields_read(users)
        for su in sus:
            cfg = CFG(su)
            callees = {}
            for c in su.calls():
                if c.k == "CXXMemberCallExpr" and c.c and c.c[0].k == "CXXThisExpr" and c.callee in byqn and c.i in cfg.pos:
                    w = set()
                    for g in closure([g for g in byqn[c.callee] if g.cls == cls]):
                        w |= fields_written(g)
                    callees[c.i] = w
            direct = fields_written(su)
            derived = sorted(x for x in used & (direct | set().union(*callees.values()) if callees else used & direct) if x not in ("_already_set_up", "proj_data_info_sptr", "exam_info_sptr"))
            yes = [r for r in cfg.return_nodes() if r.c and "Succeeded::yes" in key(r.c[0])]
            for fld in derived:
                def writes(m, fld=fld):
                    if m.i in callees and fld in callees[m.i]:
                        return True
                    return any(e.strip().k == "MemberExpr" and e.strip().get("n") == fld and e.strip().c and e.strip().c[0].k == "CXXThisExpr" for e in written_lvalues(m))

                w = cfg.paths_avoiding([(cfg.entry, -1)], writes, target_pred=lambda x: x.i in {r.i for r in yes}, to_exit=False) if yes else None
                ctx.ob("C13.g-setup-rebuilds-derived-data", su.qn + "(" + su.sig[:30] + ")", "field:" + fld, w is None, su.where(), "every successful set_up() rebuilds %s (which apply/undo/get_bin_efficiency read)" % fld if w is None else "a set_up() can succeed without rebuilding %s, which apply/undo/get_bin_efficiency read: factors changed in place since the previous set_up() are ignored" % fld)
                n += 1
    return n


def rule_h_whole_data_once(ctx, fns, enum_fns):
    """apply(ProjData&) / undo(ProjData&) of the base class normalise a whole data set: every (basic view/segment group, TOF bin) must be
    normalised exactly once.  (1) the groups come from the one enumeration, asked for all segments and subset 0 of 1, which lists each
    basic group once (C06's rule on that function); (2) the routine walks that list once and, inside, runs over the TOF bins
    get_min_tof_pos_num()..get_max_tof_pos_num() in steps of one; (3) per turn: read the related viewgrams of (group, TOF bin),
    normalise them with the per-viewgram routine of the same name, write them back - once each, in this order."""
    from engine.loops import describe
    from rules.C06 import rule_a as enumeration_lists_each_group_once

    n = 0
    e = [f for f in enum_fns if f.qn == "stir::detail::find_basic_vs_nums_in_subset" and f.body is not None]
    if not e:
        ctx.fail_broken("anchor stir::detail::find_basic_vs_nums_in_subset not found")
        return 0
    enumeration_lists_each_group_once(ctx, e[0], rule="C13.h-whole-data-each-viewgram-once")
    seen = set()
    for f in fns:
        if f.qn != "stir::BinNormalisation::" + f.short or f.short not in ("apply", "undo") or f.body is None or not f.cfg_raw or not f.params or "ProjData &" not in f.params[0]["t"] or "const" in f.params[0]["t"].split("ProjData")[0] or (f.file, f.line) in seen:
            continue
        seen.add((f.file, f.line))
        cfg = CFG(f)
        pd = "v%d" % f.params[0]["d"]
        defs = LocalDefs(f)
        sub = {d: defs.single_def(d) for d in defs.decl}
        lists = [c for c in f.calls() if (c.callee or "") == "stir::detail::find_basic_vs_nums_in_subset"]
        ok1 = len(lists) == 1
        det1 = "expected one call of the enumeration"
        if ok1:
            a = [key(x.strip(), False, sub) for x in lists[0].call_args()]
            ok1 = a[2] == pd + ".get_min_segment_num()" and a[3] == pd + ".get_max_segment_num()" and a[4] == "0" and a[5] == "1"
            det1 = "groups of all segments, subset 0 of 1" if ok1 else "the enumeration is asked for segments %s..%s, subset %s of %s" % tuple(a[2:6])
        ctx.ob("C13.h-whole-data-each-viewgram-once", f.qn + "(ProjData&)", "all-groups", ok1, f.where(), det1)
        n += 1
        loops = [(describe(lp, names=False), lp) for lp in f.walk() if lp.k == "ForStmt"]
        loops = [(d, lp) for d, lp in loops if d]
        from engine.loops import bounds as loop_bounds

        tof = [(d, lp) for d, lp in loops if (loop_bounds(lp, sub) or {}).get("init", "").endswith("get_min_tof_pos_num()") and (loop_bounds(lp, sub) or {}).get("upper", "").endswith("get_max_tof_pos_num()") and str(d.get("step")) == "1"]
        lst = [(d, lp) for d, lp in loops if str(d.get("init")) == "0" and str(d.get("step")) == "1" and any(a is lp for t_ in tof for a in t_[1].ancestors())]
        per = "stir::BinNormalisation::" + f.short
        work = [c for c in f.calls() if c.k == "CXXMemberCallExpr" and (c.callee or "") == per and c.c and c.c[0].strip().k == "CXXThisExpr" and len(c.call_args()) == 1 and "RelatedViewgrams" in (c.call_args()[0].strip().type or "")]
        ok2, det2 = False, "expected one loop over the list, one loop over the TOF bins inside it and one per-viewgram call"
        if len(tof) == 1 and len(lst) == 1 and len(work) == 1:
            tl, ll = tof[0][1], lst[0][1]
            tv, iv = "v%d" % tof[0][0]["d"], "v%d" % lst[0][0]["d"]
            vg = key(work[0].call_args()[0].strip())
            gets = [c for c in tl.calls() if (c.callee or "").endswith("::get_related_viewgrams") and key(c.c[0].strip()) == pd]
            sets = [c for c in tl.calls() if (c.callee or "").endswith("::set_related_viewgrams") and key(c.c[0].strip()) == pd and key(c.call_args()[0].strip()) == vg]
            inside = all(any(a is tl for a in c.ancestors()) for c in work)
            upper_ok = re.fullmatch(r"\(- .*\.size\(\).* 1\)|.*size\(\).*", str(lst[0][0].get("upper"))) is not None
            args_ok = len(gets) == 1 and key(gets[0].call_args()[0].strip(), False, sub).endswith("[%s]" % iv) and "find_basic_vs_nums_in_subset(" in key(gets[0].call_args()[0].strip(), False, sub) and key(gets[0].call_args()[3].strip()) == tv and not gets[0].call_args()[3].strip().get("defarg")
            order = len(gets) == 1 and len(sets) == 1 and cfg.dominates(gets[0], work[0]) and cfg.dominates(work[0], sets[0])
            ok2 = inside and upper_ok and args_ok and order
            det2 = "for every listed group and every TOF bin: read the related viewgrams, %s them once, write them back" % f.short if ok2 else "per-viewgram work inside the TOF loop=%s, list walked to its end=%s, viewgrams of (list[i], TOF bin)=%s, read-normalise-write order=%s" % (inside, upper_ok, args_ok, order)
        ctx.ob("C13.h-whole-data-each-viewgram-once", f.qn + "(ProjData&)", "every-group-and-tof-bin-once", ok2, f.where(), det2)
        n += 1
    return n


def rule_i_per_bin_factor_is_the_efficiency(ctx, fns):
    """`undo multiplies each bin by its efficiency, apply divides by it, get_bin_efficiency reports it`: a class that overrides
    apply/undo(RelatedViewgrams&) with its own loop over the bins and also provides the efficiency of a bin must update the element
    with exactly that efficiency - `x op= E` or `x op= max(eps, E)` with E = get_bin_efficiency(bin) of the SAME bin - and with nothing
    else multiplied in."""
    n = 0
    seen = set()
    # the property names its kinds: from projection data, from an attenuation image, from detector components, chained, trivial (and the
    # base class they share).  Scanner-specific classes are outside it; BinNormalisationSPECT in particular does NOT satisfy this clause
    # (DESIGN.md section 1, side observation with triage/replay_F23.cxx) and is deliberately not judged here.
    OUT_OF_PROPERTY = ("stir::BinNormalisationSPECT", "stir::BinNormalisationFromECAT7", "stir::BinNormalisationFromECAT8", "stir::BinNormalisationFromGEHDF5")
    have_eff = ({f.cls for f in fns if f.short in ("get_bin_efficiency", "get_uncalibrated_bin_efficiency") and f.body is not None} | {"stir::BinNormalisation"}) - set(OUT_OF_PROPERTY)
    ctx.stats["per_bin_factor_classes_not_judged"] = list(OUT_OF_PROPERTY)
    for f in fns:
        if f.short not in ("apply", "undo") or f.body is None or f.cls not in have_eff or not f.params or "RelatedViewgrams" not in f.params[0]["t"] or (f.file, f.line) in seen:
            continue
        ups = []  # (node, op, lhs, rhs)
        for m in f.walk():
            if not any(a.k == "ForStmt" for a in m.ancestors()) or len(m.c) < 2:
                continue
            l_ = m.c[-2].strip()
            if "float" not in (l_.type or "") or l_.k not in ("CXXOperatorCallExpr", "ArraySubscriptExpr"):
                continue
            if m.k in ("CompoundAssignOperator", "CXXOperatorCallExpr") and m.op in ("*=", "/="):
                ups.append((m, m.op, l_, m.c[-1].strip()))
            elif m.k == "BinaryOperator" and m.op == "=":
                r_ = m.c[-1].strip()
                # x = x * E  /  x = x / E
                if r_.k == "BinaryOperator" and r_.op in ("*", "/") and key(r_.c[0].strip()) == key(l_):
                    ups.append((m, r_.op + "=", l_, r_.c[1].strip()))
                elif r_.k == "BinaryOperator" and r_.op == "*" and key(r_.c[1].strip()) == key(l_):
                    ups.append((m, "*=", l_, r_.c[0].strip()))
        if not ups:
            continue
        seen.add((f.file, f.line))
        defs = LocalDefs(f)
        sub = {d: defs.single_def(d) for d in defs.decl}
        for i, (m, op_, lhs_n, rhs) in enumerate(ups):
            want_op = "/=" if f.short == "apply" else "*="
            k = key(rhs, False, sub)
            mm = re.fullmatch(r"(?:std::max\([^,]+,)?this\.get_bin_efficiency\((v\d+)\)\)?", k)
            lhs = key(lhs_n, False, sub)
            same_bin = mm is not None and ("%s.axial_pos_num()" % mm.group(1)) in lhs and ("%s.tangential_pos_num()" % mm.group(1)) in lhs
            ok = op_ == want_op and mm is not None and same_bin
            ctx.ob("C13.i-per-bin-factor-is-the-efficiency", f.qn, "update@%d" % i, ok, m.where(), "element %s get_bin_efficiency(bin) of its own bin" % want_op if ok else "the element is updated with `%s %s`, not with the efficiency get_bin_efficiency(bin) reports for its bin: apply/undo and the reported efficiency disagree" % (op_, key(rhs, True)[:140]))
            n += 1
    return n


def rule_j_failed_setup_is_not_set_up(ctx, fns):
    """check() lets apply/undo run once the object counts as set up.  The base class set_up() sets that flag and replaces the stored
    geometry by its argument.  A derived set_up() that can still FAIL afterwards must not leave the object usable, and must not compare
    the stored geometry with the argument after the base class has made them the same object:
      * on every path from the base-class set_up call to a `return Succeeded::no` the set-up flag is cleared again;
      * no comparison of `*this->proj_data_info_sptr` with the parameter it was just assigned from."""
    RULE = "C13.j-failed-setup-is-not-set-up"
    base = [g for g in fns if g.qn == "stir::BinNormalisation::set_up" and g.body is not None]
    if not base:
        ctx.unrec("stir::BinNormalisation::set_up", "base class set_up not found")
        return 0
    sets_flag = any(m.k == "BinaryOperator" and m.op == "=" and key(m.c[0].strip()) == "this._already_set_up" and key(m.c[1].strip()) == "true" for m in base[0].walk())
    stores = {}  # member -> index of the parameter it is assigned from
    for m in base[0].walk():
        if m.k in ("BinaryOperator", "CXXOperatorCallExpr") and m.op == "=" and len(m.c) >= 2:
            lhs, rhs = m.c[-2].strip(), m.c[-1].strip()
            if lhs.k == "MemberExpr" and rhs.k == "DeclRefExpr" and rhs.get("dk") == "param":
                for i, p in enumerate(base[0].params):
                    if p["d"] == rhs.get("d"):
                        stores[lhs.get("n")] = i
    n = 0
    seen = set()
    for f in fns:
        if f.short != "set_up" or f.body is None or not f.cfg_raw or f.qn == base[0].qn or (f.file, f.body.line) in seen or f.is_const:
            continue
        bc = [c for c in f.calls() if c.callee == base[0].qn]
        if not bc:
            continue
        seen.add((f.file, f.body.line))
        cfg = CFG(f)
        fails = [r for r in f.walk() if r.k == "ReturnStmt" and "Succeeded::no" in key(r) and r.i in cfg.pos]
        # returns that only hand the base class's own failure on are not failures AFTER a successful base set_up
        fails = [r for r in fails if not any(a.k == "IfStmt" and a.c and any(x.i == bc[0].i for x in a.c[0].walk()) for a in r.ancestors())]
        # a failure handed on from a MEMBER's set_up is that member's business: its own apply()/undo() refuse to run (this clause
        # applied to the member's class)
        fails = [r for r in fails if not any(a.k == "IfStmt" and a.c and any(x.k == "CXXMemberCallExpr" and (x.callee or "").endswith("::set_up") and x.c and x.c[0].strip().k != "CXXThisExpr" and key(x.c[0].strip()).lstrip("*").startswith("this.") for x in a.c[0].walk()) for a in r.ancestors())]
        clears = {m.i for m in f.walk() if m.k == "BinaryOperator" and m.op == "=" and key(m.c[0].strip()) == "this._already_set_up" and key(m.c[1].strip()) == "false"}
        later = [r for r in fails if cfg.paths_avoiding([cfg.pos[bc[0].i]], lambda x: False, target_pred=lambda x, ri=r.i: x.i == ri, to_exit=False) is not None] if bc[0].i in cfg.pos else fails
        bad = []
        for r in later:
            # is there a path from the base call to this return that avoids every clearing of the flag?
            w = cfg.paths_avoiding([cfg.pos[bc[0].i]], lambda x: x.i in clears, target_pred=lambda x, ri=r.i: x.i == ri, to_exit=False)
            if w is not None:
                bad.append(r)
        ok = not (sets_flag and bad)
        ctx.ob(RULE, f.qn, "failure-after-base-set_up", ok, (bad[0] if bad else f).where(), ("no failure exit is reachable after the base class set_up()" if not later else "every failure exit after the base class set_up() clears the set-up flag again") if ok else "set_up() can return Succeeded::no after the base class has marked the object as set up: apply()/undo() then pass check() and run on data the object has just rejected")
        n += 1
        # self comparison through the base class's store
        for m in f.walk():
            if m.k in ("BinaryOperator", "CXXOperatorCallExpr") and m.op in ("==", "!=") and len(m.c) >= 2 and m.i in cfg.pos and bc[0].i in cfg.pos:
                a, b = key(m.c[-2].strip()), key(m.c[-1].strip())
                for mem, j in stores.items():
                    if j < len(bc[0].call_args()):
                        pk = key(bc[0].call_args()[j].strip())
                        if {a, b} == {"*this." + mem, "*" + pk} and cfg.dominates(bc[0], m):
                            ctx.ob(RULE, f.qn, "comparison@%d" % m.line, False, m.where(), "`%s` is compared with `%s` after the base class set_up() has assigned the one from the other: the test compares an object with itself and can never fail" % (a, b))
                            n += 1
    return n


def run(ctx):
    ctx.explanation = (
        "Decides, for every BinNormalisation class compiled in this build: (a) apply and undo are duals - the argument is modified the "
        "same number of times, by factors whose data-flow sources are identical, with inverse operations (mul<->div, "
        "member->apply<->member->undo), also for the ProjData and only_first/only_second variants; (b) the chain's efficiency is the "
        "product of its members' with absent members as 1 and apply/undo visit each member once; (c) check() precedes every "
        "modification of the data; (d) the chain sets up base and members with the caller's arguments and propagates failure, and "
        "every set_up is idempotent (no member updated from its own previous value); (e) the trivial normalisation's apply/undo are "
        "empty. NOT decided: efficiency values, ACF = exp(line integral) numerically, component models, positivity."
    )
    reqs = requests()
    ctx.ex.prefetch(reqs)
    units = [ctx.ex.get(r) for r in reqs]
    if any(u is None for u in units):
        return
    fns = uniq([f for u in units for f in u.functions])
    n = rule_a(ctx, fns)
    rule_b_chain(ctx, fns)
    rule_c_check_first(ctx, fns)
    rule_d_setup(ctx, fns)
    rule_e_trivial(ctx, units)
    rule_g_setup_rebuilds_derived_data(ctx, fns)
    ctx.require_count("C13.g-setup-rebuilds-derived-data", 2)
    rule_i_per_bin_factor_is_the_efficiency(ctx, fns)
    ctx.require_count("C13.i-per-bin-factor-is-the-efficiency", 2)
    er = Request("src/recon_buildblock/find_basic_vs_nums_in_subset.cxx", fn=["stir::detail::find_basic_vs_nums_in_subset"])
    eu = ctx.ex.get(er)
    if eu is not None:
        rule_h_whole_data_once(ctx, fns, eu.functions)
        ctx.require_count("C13.h-whole-data-each-viewgram-once", 7)
    rule_j_failed_setup_is_not_set_up(ctx, fns)
    ctx.require_count("C13.j-failed-setup-is-not-set-up", 4)
    rule_f_no_hidden_state(ctx, fns)
    ctx.require_count("C13.f-no-hidden-state", 25)
    ctx.require_count("C13.a-apply-undo-dual", 10)
    ctx.require_count("C13.b-chain-product", 3)
    ctx.require_count("C13.c-check-before-use", 8)
    ctx.require_count("C13.d-setup", 8)
    ctx.require_count("C13.e-trivial-changes-nothing", 2)
