"""C16 - single-scatter simulation.  Decided clauses:

 a  RF11 the estimate for one scatter point is invariant under exchanging the two detectors (closed-form algebra on the
         returned expression and on every early-return condition)
 b  RF11 it is homogeneous of degree 1 in the two activity line integrals, and the early `return 0` for zero activity agrees
 c  RF7  the cached accessors return, on a miss, the value they store, computed by the same call as the uncached path
 d  RF5  every function that replaces an input of a cache drops that cache; every configuration setter clears
         _already_set_up; process_data tests it
"""
import re

import sympy

from engine import rf5
from engine.algebra import Algebra, LocalDefs, data_slice
from engine.cfg import CFG, atoms
from engine.extract import Request
from engine.tree import key, root_of_lvalue, written_lvalues

D = "src/scatter_buildblock/"
SYMMETRIC = {"stir::cos_angle", "stir::inner_product"}

# cache -> the inputs it is computed from (fields); slot filled from integral_over_*_between_scattpoint_det
CACHE_INPUTS = {
    "remove_cache_for_integrals_over_activity": {"activity_image_sptr"},
    "remove_cache_for_integrals_over_attenuation": {"density_image_sptr"},
}
BOTH = {"scatt_points_vector", "detection_points_vector", "proj_data_info_sptr"}


def requests():
    return [
        Request(D + "scatter_estimate_for_one_scatter_point.cxx", fn=["stir::SingleScatterSimulation::simulate_for_one_scatter_point"]),
        Request(D + "cached_single_scatter_integrals.cxx", fn=["stir::ScatterSimulation::.*"]),
        Request(D + "ScatterSimulation.cxx", fn=["stir::ScatterSimulation::.*"], files=["/repo/src/scatter_buildblock/.*", "/repo/src/include/stir/scatter/.*"]),
        Request(D + "sample_scatter_points.cxx", fn=["stir::ScatterSimulation::.*"], files=["/repo/src/scatter_buildblock/.*"]),
        Request(D + "scatter_detection_modelling.cxx", fn=["stir::ScatterSimulation::.*"], files=["/repo/src/scatter_buildblock/.*"]),
        Request(D + "SingleScatterSimulation.cxx", fn=["stir::SingleScatterSimulation::.*"], files=["/repo/src/scatter_buildblock/.*"]),
    ]


def swap_name(s):
    # the two detectors are the function's second and third parameter, named by role (never by the identifiers in the source)
    return re.sub(r"\$det_([AB])", lambda m: "$det_" + ("B" if m.group(1) == "A" else "A"), s)


def canon_sym(s):
    """re-sort the arguments of commuting calls inside a symbol name after swapping"""
    for f in SYMMETRIC:
        pos = 0
        while True:
            i = s.find(f + "(", pos)
            if i < 0:
                break
            j = i + len(f) + 1
            depth, k, args, cur = 1, j, [], ""
            while k < len(s) and depth > 0:
                ch = s[k]
                if ch in "([":
                    depth += 1
                elif ch in ")]":
                    depth -= 1
                    if depth == 0:
                        break
                if ch == "," and depth == 1:
                    args.append(cur)
                    cur = ""
                else:
                    cur += ch
                k += 1
            args.append(cur)
            if len(args) == 2:
                a, b = sorted(args)
                s = s[:j] + a + "," + b + s[k:]
            pos = j
    return s


def rule_ab(ctx, fn):
    cfg = CFG(fn)
    if len(fn.params) != 3:
        ctx.unrec(fn.qn, "expected (scatter point, detector A, detector B) parameters")
        return
    roles = {fn.params[0]["d"]: "$scatter_point", fn.params[1]["d"]: "$det_A", fn.params[2]["d"]: "$det_B"}
    alg = Algebra(fn, names=roles, cfg=cfg, symmetric=SYMMETRIC)
    rets = [r for r in cfg.return_nodes() if r.c]
    main = [r for r in rets if key(r.c[0].strip()) not in ("0", "0.0")]
    zero = [r for r in rets if key(r.c[0].strip()) in ("0", "0.0")]
    if len(main) != 1:
        ctx.unrec(fn.qn, "expected exactly one non-constant return, found %d" % len(main))
        return
    E = alg.expr(main[0].c[0])
    names = {s.name for s in E.free_symbols}
    if not any("$det_A" in n for n in names) or not any("$det_B" in n for n in names):
        ctx.unrec(fn.qn, "returned expression does not mention both detectors")
        return
    E = E.subs({s: sympy.Symbol(canon_sym(s.name), real=True) for s in E.free_symbols}, simultaneous=True)
    sub = {s: sympy.Symbol(canon_sym(swap_name(s.name)), real=True) for s in E.free_symbols}
    Es = E.subs(sub, simultaneous=True)
    diff = sympy.simplify(sympy.expand(E - Es))
    ok = diff == 0
    ctx.ob(
        "C16.a-exchange-symmetry",
        fn.qn,
        "returned-value",
        ok,
        "%s:%d" % (fn.file, main[0].line),
        "value(A,B) - value(B,A) simplifies to 0 (%d symbols, cos_angle/inner_product commute)" % len(E.free_symbols) if ok else "value changes when the detectors are exchanged: difference %s" % str(diff)[:300],
    )
    # early returns: the set of guarding atoms is invariant under the swap
    for idx, r in enumerate(zero):
        facts = cfg.facts_at(r)
        guard_atoms = set()
        p = r
        # the if statement directly guarding this return
        ifs = [a for a in r.ancestors() if a.k == "IfStmt"]
        if not ifs:
            ctx.unrec(fn.qn, "return 0 at line %d is not guarded by an if" % r.line)
            continue
        g = ifs[0]
        ats = {(alg.symkey(a.strip()) if a.strip().k != "BinaryOperator" else "(%s %s %s)" % (a.strip().op, alg.symkey(a.strip().c[0].strip()), alg.symkey(a.strip().c[1].strip())), t) for a, t in atoms(g.c[0], True)}
        sw = {(canon_sym(swap_name(k)), t) for k, t in ats}
        ok = {(canon_sym(k), t) for k, t in ats} == sw
        ctx.ob("C16.a-exchange-symmetry", fn.qn, "early-return@%d" % idx, ok, "%s:%d" % (fn.file, r.line), "guard is invariant under exchanging the detectors: %s" % sorted(k for k, _t in ats) if ok else "guard of `return 0` treats the detectors differently: %s vs swapped %s" % (sorted(ats), sorted(sw)))
    # b: homogeneous of degree 1 in the activity integrals
    act = [s for s in E.free_symbols if "cached_integral_over_activity_image_between_scattpoint_det" in s.name]
    if len(act) != 2:
        ctx.ob("C16.b-linear-in-activity", fn.qn, "activity-integrals", False, fn.where(), "expected the two cached activity integrals in the returned expression, found %s" % [a.name for a in act])
        return
    t = sympy.Symbol("t", positive=True)
    Et = E.subs({a: t * a for a in act}, simultaneous=True)
    ok = sympy.simplify(sympy.expand(Et - t * E)) == 0
    ctx.ob("C16.b-linear-in-activity", fn.qn, "homogeneous-degree-1", ok, fn.where(), "value(t*activity) = t*value(activity): linear in the two activity line integrals" if ok else "value is not linear in the activity line integrals")
    E0 = E.subs({a: 0 for a in act}, simultaneous=True)
    ok0 = sympy.simplify(E0) == 0
    zero_guard = False
    for r in zero:
        ifs = [a for a in r.ancestors() if a.k == "IfStmt"]
        if ifs:
            ks = sorted(alg.symkey(a.strip().c[0].strip()) for a, tv in atoms(ifs[0].c[0], True) if tv and a.strip().k == "BinaryOperator" and a.strip().op == "==" and key(a.strip().c[1].strip()) in ("0", "0.0"))
            if ks == sorted(a.name for a in act):
                zero_guard = True
    ctx.ob("C16.b-linear-in-activity", fn.qn, "zero-activity-gives-zero", ok0 and zero_guard, fn.where(), "value vanishes for zero activity integrals, consistent with the early `return 0` when both are zero" if ok0 and zero_guard else "zero activity does not give zero (formula: %s, early return on both integrals zero: %s)" % (ok0, zero_guard))
    # the activity image is read nowhere else on this path
    other = [c for c in fn.calls() if "activity" in (c.callee or "") and "cached_integral_over_activity_image_between_scattpoint_det" not in c.callee]
    ctx.ob("C16.b-linear-in-activity", fn.qn, "activity-only-through-integrals", not other, fn.where(), "activity enters only through the two line integrals" if not other else "activity also used via %s" % other[0].callee)


def rule_c(ctx, fns):
    for f in fns:
        if not f.short.startswith("cached_") or f.body is None:
            continue
        cfg = CFG(f)
        rets = [r for r in cfg.return_nodes() if r.c]
        defs = LocalDefs(f)
        # the miss path: the value computed by the uncached function is stored to the cache cell and returned.  Everything is found by
        # data flow: the call by its callee, the cell by what its address is taken from, the hit value by where it was read from
        want = f.short[len("cached_") :]
        inl = {d: defs.single_def(d) for d in defs.decl}
        K = lambda x: key(x, False, inl)
        calls = [c for c in f.calls() if (c.callee or "").split("::")[-1] == want]
        ok = False
        det = "the uncached function %s is not called" % want
        if len(calls) == 1 and len(f.params) == 2:
            call = calls[0]
            p0, p1 = "v%d" % f.params[0]["d"], "v%d" % f.params[1]["d"]
            args = [key(a) for a in call.call_args()]
            ck = K(call)
            # the cell: a pointer local whose initialiser takes the address of CACHE[p0][p1]
            locs = [d for d, vd in defs.decl.items() if vd.c and any(m.k == "UnaryOperator" and m.op == "&" and key(m.c[0].strip()).endswith("[%s][%s]" % (p0, p1)) for m in vd.c[0].walk())]
            loc = "v%d" % locs[0] if len(locs) == 1 else None
            stores = [n for n in f.walk() if n.k == "BinaryOperator" and n.op == "=" and loc is not None and key(n.c[0].strip()) in ("*" + loc, "(* %s)" % loc) and K(n.c[1].strip()) == ck]
            ret_res = [r for r in rets if K(r.c[0].strip()) == ck]
            ok = len(stores) == 1 and len(ret_res) == 1 and args == ["this.scatt_points_vector[%s].coord" % p0, "this.detection_points_vector[%s]" % p1] and loc is not None
            det = "miss: result = %s(%s); stored to the cell; returned" % (want, ",".join(key(a, True) for a in call.call_args()))
            if loc is not None:
                det += "; cell = " + key(defs.decl[locs[0]].c[0], True)[:90]
            # hit path returns the cached value: a local that was read from the cell, or the cell itself
            from_cell = {"v%d" % d for d in defs.decl if any(key(x.strip()) in ("*" + str(loc), "(* %s)" % loc) for x in defs.all_defs(d))}
            hits = [r for r in rets if key(r.c[0].strip()) in from_cell or key(r.c[0].strip()) in ("*" + str(loc), "(* %s)" % loc)]
            ok = ok and len(hits) == 1
            if not ok:
                det = "miss path does not (compute by %s(scatter point, detector) -> store to the cell of the same indices -> return the same value) or hit path does not return the cell's value: %s" % (want, det)
        ctx.ob("C16.c-cache-equivalence", f.qn, "miss-computes-stores-returns-same", ok, f.where(), det)


def rule_d(ctx, fns):
    # 1. configuration setters clear _already_set_up
    rf5.check_setters(
        ctx,
        "C16.d-invalidation",
        fns,
        "_already_set_up",
        exempt={
            # (set_use_cache / set_cache_enabled were exempted here with the reason `no set-up state depends on it` until F42 showed
            #  that wrong: the cache arrays are allocated by set_up())
            "stir::ScatterSimulation::set_output_proj_data_sptr": "output destination only; not an input of set_up",
            "stir::ScatterSimulation::set_output_proj_data": "output destination only; not an input of set_up",
        },
    )
    # 2. whoever replaces an input of a cache drops that cache
    n = 0
    for f in fns:
        if f.body is None or not f.cfg_raw or f.is_const or f.is_ctor or f.d.get("dtor"):
            continue
        if f.short.startswith(("remove_cache", "initialise_cache", "cached_")):
            continue
        written = set()
        for m in f.walk():
            for e in written_lvalues(m):
                r = root_of_lvalue(e)
                if r.startswith("this.") and r != "this()":
                    # only whole replacement / structural change counts: assignment or reset/resize/clear/push_back
                    if m.k in ("BinaryOperator", "CXXOperatorCallExpr") and m.op == "=" or (m.k == "CXXMemberCallExpr" and (m.callee or "").split("::")[-1] in ("reset", "resize", "clear", "swap")):
                        written.add(r[5:])
        for cache, inputs in CACHE_INPUTS.items():
            hit = written & (inputs | BOTH)
            if not hit:
                continue
            if f.qn.endswith("::find_in_detection_points_vector"):
                ctx.stats.setdefault("exempt", []).append("find_in_detection_points_vector: append-only growth; indices of existing entries never change")
                continue
            cfg = CFG(f)
            calls = [c for c in f.calls() if (c.callee or "").endswith("::" + cache)]
            ids = {c.i for c in calls}
            via = [c for c in f.calls() if (c.callee or "").split("::")[-1] in ("sample_scatter_points", "set_defaults", "set_template_proj_data_info", "downsample_scanner", "set_density_image_sptr", "set_activity_image_sptr", "set_density_image_for_scatter_points_sptr") and c.call_object() is not None and c.call_object().k == "CXXThisExpr"]
            ids |= {c.i for c in via}
            wnodes = [m for m in f.walk() if m.i in cfg.pos and any(root_of_lvalue(e)[5:] in hit for e in written_lvalues(m) if root_of_lvalue(e).startswith("this."))]
            wit = cfg.must_pass_before_exit(wnodes, lambda x: x.i in ids)
            wit2 = cfg.must_pass_from_entry([cfg.fn.nodes[next(iter(ids))]] if False else [], lambda x: False)
            ok = wit is None or cfg.paths_avoiding([(cfg.entry, -1)], lambda x: x.i in ids) is None
            ctx.ob("C16.d-invalidation", f.qn + "(" + f.sig[:40] + ")", "%s-after-writing:%s" % (cache, ",".join(sorted(hit))), ok, f.where(), "every path that replaces %s also calls %s" % (sorted(hit), cache) if ok else "replaces %s but a normal path does not call %s" % (sorted(hit), cache))
            n += 1
    # 2b. the invalidators themselves drop the cache on every path (they are the only invalidation mechanism: the
    #     initialise_cache_* functions keep an array of unchanged size)
    for f in fns:
        if f.short.startswith("remove_cache_for_integrals") and f.cfg_raw:
            cfg = CFG(f)
            drops = {c.i for c in f.calls() if (c.callee or "").split("::")[-1] in ("recycle", "clear") and "this.cached_" in key(c.c[0], True)}
            drops |= {m.i for m in f.walk() if m.k in ("BinaryOperator", "CXXOperatorCallExpr") and m.op == "=" and key(m.c[0], True).startswith("this.cached_")}
            w = cfg.paths_avoiding([(cfg.entry, -1)], lambda x: x.i in drops)
            ctx.ob("C16.d-invalidation", f.qn, "drops-unconditionally", bool(drops) and w is None, f.where(), "every path empties the cache array" if drops and w is None else "a path returns without emptying the cache array: stale integrals survive an input change")
    # 2c. lazily computed values: a member M that a const function (re)computes when `M` fails a sentinel test is a cache of the
    #     members its defining expression reads; whoever replaces one of those members resets M afterwards on every path
    #     (directly, or through a member function that resets it on all its paths)
    bodies = {}
    for f in fns:
        if f.body is not None:
            bodies.setdefault(f.qn, f)

    def fields_read(e, depth=0, seen=None):
        seen = seen if seen is not None else set()
        out = set()
        for m in e.walk():
            if m.k == "MemberExpr" and m.get("mk") == "field" and m.c and m.c[0].strip().k == "CXXThisExpr":
                out.add(m.get("n"))
            elif m.k == "CXXMemberCallExpr" and m.c and m.c[0].strip().k == "CXXThisExpr" and m.callee in bodies and m.callee not in seen and depth < 3:
                seen.add(m.callee)
                out |= fields_read(bodies[m.callee].body, depth + 1, seen)
        return out

    lazy = {}
    for f in fns:
        if f.body is None or f.is_ctor:
            continue
        for g in f.walk():
            if g.k != "IfStmt" or len(g.c) < 2:
                continue
            cf = {m.get("n") for m in g.c[0].walk() if m.k == "MemberExpr" and m.get("mk") == "field" and m.c and m.c[0].strip().k == "CXXThisExpr"}
            if len(cf) != 1:
                continue
            mname = next(iter(cf))
            for a in g.c[1].walk():
                if a.k == "BinaryOperator" and a.op == "=" and key(a.c[0].strip()) == "this." + mname:
                    lazy.setdefault(mname, set()).update(fields_read(a.c[1]) - {mname})
    ctx.stats["lazily_computed_members"] = {k: sorted(v) for k, v in lazy.items()}
    for mname, inputs in sorted(lazy.items()):
        if not inputs:
            continue
        # member functions that reset M on every path
        resetters = set()
        changed = True
        while changed:
            changed = False
            for f in fns:
                if f.body is None or not f.cfg_raw or f.is_const or f.qn in resetters:
                    continue
                ids = {m.i for m in f.walk() if m.k == "BinaryOperator" and m.op == "=" and key(m.c[0].strip()) == "this." + mname}
                ids |= {c.i for c in f.calls() if c.callee in resetters and c.call_object() is not None and c.call_object().k == "CXXThisExpr"}
                if ids and CFG(f).paths_avoiding([(CFG(f).entry, -1)], lambda x: x.i in ids) is None:
                    resetters.add(f.qn)
                    changed = True
        # alternative design: set_up() resets M on every path (use requires set-up, and every setter clears the set-up flag - both
        # decided above), so whatever was computed for the previous configuration is dropped before the next use
        by_setup = [f for f in fns if f.short == "set_up" and f.qn in resetters]
        if by_setup:
            ctx.ob("C16.d-invalidation", by_setup[0].qn, "lazy:%s-reset-by-set_up" % mname, True, by_setup[0].where(), "the lazily computed %s (derived from %s) is reset by set_up() on every path" % (mname, sorted(inputs)))
            n += 1
            continue
        done = set()
        for f in fns:
            if f.body is None or not f.cfg_raw or f.is_const or f.is_ctor or f.d.get("dtor") or (f.file, f.line) in done:
                continue
            cfg = CFG(f)
            wnodes = []
            for m in f.walk():
                if m.i not in cfg.pos:
                    continue
                whole = (m.k in ("BinaryOperator", "CXXOperatorCallExpr") and m.op == "=") or (m.k == "CXXMemberCallExpr" and (m.callee or "").split("::")[-1] in ("reset", "swap"))
                if whole and any(root_of_lvalue(e).startswith("this.") and root_of_lvalue(e)[5:] in inputs for e in written_lvalues(m)):
                    wnodes.append(m)
            if not wnodes:
                continue
            done.add((f.file, f.line))
            ids = {m.i for m in f.walk() if m.k == "BinaryOperator" and m.op == "=" and key(m.c[0].strip()) == "this." + mname}
            ids |= {c.i for c in f.calls() if c.callee in resetters and c.call_object() is not None and c.call_object().k == "CXXThisExpr"}
            wit = cfg.must_pass_before_exit(wnodes, lambda x: x.i in ids)
            hit = sorted({root_of_lvalue(e)[5:] for m in wnodes for e in written_lvalues(m) if root_of_lvalue(e).startswith("this.")} & inputs)
            ctx.ob("C16.d-invalidation", f.qn + "(" + f.sig[:40] + ")", "lazy:%s-after-writing:%s" % (mname, ",".join(hit)), wit is None, wnodes[0].where(), "every path that replaces %s also resets the lazily computed %s" % (hit, mname) if wit is None else "replaces %s, which the lazily computed %s is derived from, but a normal path does not reset %s: the value computed for the previous setting is used" % (hit, mname, mname))
            n += 1
    # 3. process_data tests the flag
    for f in fns:
        if f.qn == "stir::ScatterSimulation::process_data" and f.cfg_raw:
            cfg = CFG(f)
            work = [c for c in f.calls() if (c.callee or "").endswith("process_data_for_view_segment_num")]
            # the test `if (!_already_set_up) error(..)` lies on every path to the work, and nothing here writes the flag
            def flag_test(x):
                return x.k == "MemberExpr" and key(x) == "this._already_set_up" and any(b.aborts for b in [cfg.blocks[s] for s in cfg.blocks[cfg.pos[x.i][0]].succs if s is not None])
            writes = [m for m in f.walk() if any(root_of_lvalue(e) == "this._already_set_up" for e in written_lvalues(m))]
            ok = bool(work) and cfg.must_pass_from_entry(work, flag_test) is None and not writes
            ctx.ob("C16.d-invalidation", f.qn, "use-requires-set-up", ok, f.where(), "the simulation loop is only reached with _already_set_up true" if ok else "process_data can run without set-up")
    return n


def rule_e_setup_keeps_settings(ctx, fns, cls="stir::ScatterSimulation"):
    """`After any sequence of changes followed by set-up the result equals that of a freshly configured simulation` needs set_up() to
    start from what the user asked for, every time.  A scalar setting (parsing key or set_* member of arithmetic type) whose default
    means `choose automatically` must not be replaced by the value chosen for the current images: a function reachable from set_up()
    may assign a setting only if its LAST assignment on every path to the exit stores the function's own parameter again and set_up's
    call chain passes the setting itself for that parameter (net effect: unchanged).  set_up() itself never assigns one."""
    by = {}
    for f in fns:
        if f.body is not None:
            by.setdefault(f.qn, f)
    settings = {}
    for f in fns:
        if f.body is None:
            continue
        for c in f.calls():
            if (c.callee or "").split("::")[-1] == "add_key" and len(c.call_args()) >= 2:
                for a in c.call_args()[1:]:
                    a = a.strip()
                    if a.k == "UnaryOperator" and a.op == "&" and a.c[0].strip().k == "MemberExpr" and a.c[0].strip().get("mk") == "field" and re.fullmatch(r"(const )?(int|float|double|bool|unsigned int)", (a.c[0].strip().type or "").strip()):
                        settings.setdefault(a.c[0].strip().get("n"), "parsing key")
    su = [f for f in fns if f.qn == cls + "::set_up" and f.body is not None]
    if not su or len(settings) < 4:
        ctx.unrec(cls, "set_up() or the scalar settings were not recognised (%d settings)" % len(settings))
        return 0
    # closure of set_up over member calls on this, remembering the call sites
    closure, sites, todo = {}, {}, [su[0]]
    while todo:
        g = todo.pop()
        if g.qn in closure:
            continue
        closure[g.qn] = g
        for c in g.calls():
            if c.callee in by and c.call_object() is not None and c.call_object().k == "CXXThisExpr" and by[c.callee].cls == cls:
                sites.setdefault(c.callee, []).append(c)
                todo.append(by[c.callee])
    n = 0
    for name, how in sorted(settings.items()):
        sk = "this." + name
        memo = {}
        why = {}

        def summary(qn, stack=()):
            """net effect of the member function on the setting: ('same',), ('param', i) = ends by storing its i-th parameter, ('changed',)"""
            if qn in memo:
                return memo[qn]
            if qn in stack:
                return ("same",)
            g = closure[qn]
            if not g.cfg_raw:
                memo[qn] = ("same",)
                return memo[qn]
            cfg = CFG(g)
            defs = LocalDefs(g)
            sub = {d: defs.single_def(d) for d in defs.decl}
            pkeys = {"v%d" % p["d"]: k for k, p in enumerate(g.params)}
            events = []  # (node, kind) kind: ('param', i) restoring, or 'other'
            for m in g.walk():
                if m.i not in cfg.pos:
                    continue
                if m.is_call() and m.callee in closure and m.call_object() is not None and m.call_object().k == "CXXThisExpr":
                    cs = summary(m.callee, stack + (qn,))
                    if cs == ("same",):
                        continue
                    if cs[0] == "param" and cs[1] < len(m.call_args()):
                        ak = key(m.call_args()[cs[1]].strip(), False, sub)
                        if ak == sk:
                            continue  # stores the setting itself: no effect
                        events.append((m, ("param", pkeys[ak]) if ak in pkeys else "other"))
                    else:
                        events.append((m, "other"))
                elif any(root_of_lvalue(e) == sk for e in written_lvalues(m)):
                    if m.k == "BinaryOperator" and m.op == "=" and key(m.c[0].strip()) == sk:
                        rk = key(m.c[1].strip(), False, sub)
                        if rk == sk:
                            continue
                        events.append((m, ("param", pkeys[rk]) if rk in pkeys else "other"))
                    else:
                        events.append((m, "other"))
            if not events:
                memo[qn] = ("same",)
                return memo[qn]
            rest = [(m, k) for m, k in events if k != "other"]
            others = [m for m, k in events if k == "other"]
            idxs = {k[1] for _m, k in rest}
            rid = {m.i for m, _k in rest}
            if rest and len(idxs) == 1 and (not others or cfg.must_pass_before_exit(others, lambda x: x.i in rid) is None):
                memo[qn] = ("param", next(iter(idxs)))
            else:
                memo[qn] = ("changed",)
                why[qn] = (others[0] if others else rest[0][0])
            return memo[qn]

        res = summary(su[0].qn)
        ok = res == ("same",)
        where = su[0]
        det = "the set-up chain leaves the setting `%s` (%s) as the user gave it" % (name, how)
        if not ok:
            culprit = [q for q, v in memo.items() if v == ("changed",)]
            cq = culprit[0] if culprit else su[0].qn
            where = why.get(cq, su[0])
            det = "setting `%s` (%s): %s() stores the value chosen for the current images in the setting - the next set_up() starts from it, not from what the user asked for, and differs from a freshly configured simulation" % (name, how, cq.split("::")[-1])
        ctx.ob("C16.e-setup-keeps-settings", cls, "setting:" + name, ok, where.where(), det)
        n += 1
    return n


def rule_f_derived_data_follows_settings(ctx, fns, cls="stir::ScatterSimulation"):
    """Data that the object DERIVES from its settings (the scatter points from the scatter-point image, the threshold and the placement
    flag; the scatter-point image that set_up() makes from the attenuation image, the zoom settings and the scanner) must follow every
    change of those settings by the time set_up() has run.  Producers are the member functions reachable from set_up() that replace a
    member wholesale; their inputs are the members they read (and the members set_up passes them as arguments).  For every public
    set_* function that assigns one of those inputs: it calls the producer itself on every path, or set_up() calls the producer on
    every successful path, or - when set_up() only produces if the derived member is empty - the setter empties the derived member
    (unconditionally, or under a bool member that the producer sets to true on every path: `made here, not given by the user`)."""
    RULE = "C16.f-derived-data-follows-settings"
    by = {}
    for f in fns:
        if f.body is not None and f.cls == cls:
            by.setdefault(f.qn, f)
    su = by.get(cls + "::set_up")
    if su is None:
        ctx.unrec(cls, "set_up() not found")
        return 0

    def this_calls(f):
        return [c for c in f.calls() if c.callee in by and c.call_object() is not None and c.call_object().strip().k == "CXXThisExpr"]

    def wholesale_writes(f):
        out = {}
        for m in f.walk():
            for e in written_lvalues(m):
                r = root_of_lvalue(e)
                if r.startswith("this.") and r != "this()":
                    if (m.k in ("BinaryOperator", "CXXOperatorCallExpr") and m.op == "=" and key(m.c[0].strip()) == r) or (m.k == "CXXMemberCallExpr" and (m.callee or "").split("::")[-1] in ("reset", "resize", "clear", "swap", "push_back") and key(m.c[0].strip()) == r):
                        out.setdefault(r[5:], []).append(m)
        return out

    def fields_read(f, seen=None, stop=()):
        """members whose VALUE f uses (a member that is only assigned is not read); calls to functions in `stop` are not followed"""
        seen = seen if seen is not None else set()
        out = set()
        for m in f.walk():
            if m.k == "MemberExpr" and m.get("mk") == "field" and m.c and m.c[0].strip().k == "CXXThisExpr":
                par = m.parent
                if par is not None and par.k == "BinaryOperator" and par.op == "=" and par.c and par.c[0] is m:
                    continue
                out.add(m.get("n"))
        for c in this_calls(f):
            if c.callee not in seen and c.callee not in stop:
                seen.add(c.callee)
                out |= fields_read(by[c.callee], seen, stop)
        return out

    IGNORE = {"_already_set_up", "cached_activity_integral_scattpoint_det", "cached_attenuation_integral_scattpoint_det", "detector_efficiency_no_scatter", "max_single_scatter_cos_angle"}
    # producers: functions called (transitively) from set_up on this that replace a member wholesale
    producers = {}
    todo, seen = [su], {su.qn}
    while todo:
        f = todo.pop()
        for c in this_calls(f):
            g = by[c.callee]
            if g.qn in seen or g.short.startswith(("remove_cache", "initialise_cache", "check_", "set_")):
                continue
            seen.add(g.qn)
            todo.append(g)
            ww = {d: ms for d, ms in wholesale_writes(g).items() if d not in IGNORE}
            # only the member(s) this function is about: written wholesale and not merely saved/restored settings of arithmetic type
            ww = {d: ms for d, ms in ww.items() if not re.fullmatch(r"(const )?(int|float|double|bool|unsigned int)", (ms[0].c[0].strip().type or "").strip())}
            if not ww:
                continue
            reads = None
            producers[g.qn] = [set(ww), reads, c]
    # inputs of a producer: what its own code reads - not what a nested producer reads for ITS output
    for q, rec in producers.items():
        g, c = by[q], rec[2]
        reads = fields_read(g, None, set(producers) - {q}) - rec[0] - IGNORE
        for a in c.call_args():
            for m in a.walk():
                if m.k == "MemberExpr" and m.get("mk") == "field" and m.c and m.c[0].strip().k == "CXXThisExpr":
                    reads.add(m.get("n"))
        # a bool member the producer sets to true on every path records HOW the derived member came about - it is not an input
        gcfg = CFG(g)
        for m in g.walk():
            if m.k == "BinaryOperator" and m.op == "=" and key(m.c[1].strip()) == "true" and key(m.c[0].strip()).startswith("this.") and m.i in gcfg.pos:
                if gcfg.paths_avoiding([(gcfg.entry, -1)], lambda x, mi=m.i: x.i == mi) is None:
                    reads.discard(key(m.c[0].strip())[5:])
        rec[1] = reads
    ctx.stats["derived_data_producers"] = {q.split("::")[-1]: {"derives": sorted(d), "from": sorted(r)} for q, (d, r, _c) in producers.items()}
    if len(producers) < 2:
        ctx.unrec(cls, "fewer than two producers of derived data found below set_up() (%s)" % sorted(producers))
        return 0

    def calls_closure(f, target, seen=None):
        """call nodes in f (on this) that reach `target`"""
        seen = seen if seen is not None else set()
        out = []
        for c in this_calls(f):
            if c.callee == target:
                out.append(c)
            elif c.callee not in seen:
                seen.add(c.callee)
                if calls_closure(by[c.callee], target, seen) and _on_every_path(by[c.callee], target, by, this_calls):
                    out.append(c)
        return out

    sucfg = CFG(su)
    n = 0
    for pq, (derived, reads, site) in sorted(producers.items()):
        P = by[pq]
        # does set_up reach the producer on every successful path?  (success = return Succeeded::yes)
        rets = [m for m in su.walk() if m.k == "ReturnStmt" and "Succeeded::yes" in key(m) and m.i in sucfg.pos]
        reach = {c.i for c in calls_closure(su, pq)}
        always = bool(rets) and sucfg.must_pass_from_entry(rets, lambda x: x.i in reach) is None
        # or only when the derived member is empty
        guarded_by_empty = any(a.k == "IfStmt" and a.c and re.search(r"is_null_ptr\(this\.(%s)\)|\(== this\.(%s)" % ("|".join(derived), "|".join(derived)), key(a.c[0])) for c in this_calls(su) if c.i in reach for a in c.ancestors())
        # bool members the producer sets to true on every path
        pflags = set()
        pcfg = CFG(P)
        for m in P.walk():
            if m.k == "BinaryOperator" and m.op == "=" and key(m.c[1].strip()) == "true" and key(m.c[0].strip()).startswith("this.") and m.i in pcfg.pos:
                if pcfg.paths_avoiding([(pcfg.entry, -1)], lambda x, mi=m.i: x.i == mi) is None:
                    pflags.add(key(m.c[0].strip()))
        for f in sorted({(g.file, g.line): g for g in fns if g.body is not None and g.cls == cls}.values(), key=lambda g: (g.file, g.line)):
            if not f.short.startswith("set_") or f.short in ("set_up", "set_defaults") or f.d.get("access", 0) != 0 or not f.cfg_raw or not f.params:
                continue
            ws = wholesale_writes(f)
            hit = sorted(set(ws) & reads)
            if not hit or set(ws) & derived and not hit:
                continue
            fcfg = CFG(f)
            wn = [m for h in hit for m in ws[h] if m.i in fcfg.pos]
            if not wn:
                continue
            own_calls = calls_closure(f, pq)
            own = {c.i for c in own_calls}
            via_own = bool(own) and fcfg.must_pass_before_exit(wn, lambda x: x.i in own) is None
            if not via_own and own_calls:
                # the setter runs the producer unless one of the producer's (pointer) inputs is still missing - the derived data
                # are then made when that input arrives (its own setters / producers are obligations of this rule as well)
                for c in own_calls:
                    conds = [a.c[0].strip() for a in c.ancestors() if a.k == "IfStmt" and a.c and len(a.c) > 1 and any(x is c for x in a.c[1].walk())]
                    if conds and all(re.fullmatch(r"\(! is_null_ptr\(this\.(%s)\)\)|\(! stir::is_null_ptr\(this\.(%s)\)\)" % ("|".join(sorted(reads)), "|".join(sorted(reads))), key(cd)) for cd in conds):
                        via_own = True
            empties = [m for d in derived for m in ws.get(d, []) if m.k == "CXXMemberCallExpr" and (m.callee or "").split("::")[-1] in ("reset", "clear") and not m.call_args()]
            emptied = False
            for m in empties:
                conds = [a.c[0] for a in m.ancestors() if a.k == "IfStmt" and a.c]
                if all(key(c.strip()) in pflags for c in conds):
                    emptied = True
            # the setter empties an input X that is itself derived: set_up() makes X again (when empty) with a producer that runs THIS
            # producer on every path
            chain = False
            for h in hit:
                hw = [m for m in ws[h] if m.k == "CXXMemberCallExpr" and (m.callee or "").split("::")[-1] in ("reset", "clear") and not m.call_args()]
                if not hw or len(hw) != len(ws[h]):
                    continue
                for q1, (d1, _r1, _c1) in producers.items():
                    if h in d1 and q1 != pq and _on_every_path(by[q1], pq, by, this_calls):
                        reach1 = {c.i for c in calls_closure(su, q1)}
                        if any(a.k == "IfStmt" and a.c and ("is_null_ptr(this.%s)" % h) in key(a.c[0]) for c in this_calls(su) if c.i in reach1 for a in c.ancestors()):
                            chain = True
            ok = via_own or always or (guarded_by_empty and emptied) or chain
            how = "calls %s itself" % P.short if via_own else ("set_up() runs %s on every successful path" % P.short if always else ("empties %s; set_up() makes that again and with it %s" % (", ".join(hit), "/".join(sorted(derived))) if chain else "empties %s, which set_up() then makes again" % "/".join(sorted(derived))))
            ctx.ob(RULE, f.qn + "(" + f.sig[:40] + ")", "%s<-%s" % ("/".join(sorted(derived)), ",".join(hit)), ok, wn[0].where(), "%s follows the new %s: %s" % ("/".join(sorted(derived)), ", ".join(hit), how) if ok else "%s is derived from %s (by %s), but after this setter neither the setter nor set_up() derives it again%s: the object keeps what was derived for the previous setting and differs from a freshly configured one" % ("/".join(sorted(derived)), ", ".join(hit), P.short, " (set_up() only does so when it is empty, and the setter does not empty it)" if guarded_by_empty else ""))
            n += 1
    return n


def _on_every_path(f, target, by, this_calls):
    cfg = CFG(f)
    ids = {c.i for c in this_calls(f) if c.callee == target}
    if not ids:
        return False
    return cfg.paths_avoiding([(cfg.entry, -1)], lambda x: x.i in ids) is None


def uniq(fns):
    seen, out = set(), []
    for f in fns:
        k = (f.file, f.body.line if f.body is not None else f.line, f.qn, f.sig)
        if k not in seen:
            seen.add(k)
            out.append(f)
    return out


def rule_g_setters_skip_only_on_identity(ctx, fns, eqfns, cls="stir::ScatterSimulation"):
    """A public setter that returns before it has stored its argument leaves the object on the old setting.  That is the same as
    storing it only if the guard of that return implies that the new value is IDENTICAL to the old one.  A guard that calls a
    user-defined operator== which itself compares with tolerances (ExamInfo: energy thresholds within 1 keV, start times within 0.5 s)
    does not: a setting within the tolerance is silently dropped and the simulation differs from a freshly configured one (seed C16-5)."""
    RULE = "C16.g-setters-skip-only-on-identical-values"
    eq = {}
    for g in eqfns:
        if g.body is not None and g.short == "operator==":
            eq.setdefault(g.qn, g)
    n = 0
    seen = set()
    for f in fns:
        if f.body is None or f.cls != cls or not f.short.startswith("set_") or f.short in ("set_up", "set_defaults") or f.d.get("access", 0) != 0 or not f.params or (f.file, f.body.line) in seen:
            continue
        seen.add((f.file, f.body.line))
        writes = [m for m in f.walk() if any(root_of_lvalue(e).startswith("this.") for e in written_lvalues(m))]
        if not writes:
            continue
        first_write = min(m.i for m in writes)
        for r in f.walk():
            if r.k != "ReturnStmt" or r.i > first_write:
                continue
            guards = [a.c[0] for a in r.ancestors() if a.k == "IfStmt" and a.c]
            if not guards:
                continue
            tolerant, unknown = [], []
            for gnode in guards:
                for m in gnode.walk():
                    if m.k == "CXXOperatorCallExpr" and m.op in ("==", "!=") and (m.callee or "").startswith("stir::") and "shared_ptr" not in (m.callee or ""):
                        g = eq.get(m.callee)
                        if g is None:
                            unknown.append(m.callee)
                            continue
                        rel = [x for x in g.walk() if (x.k == "BinaryOperator" and x.op in ("<", "<=", ">", ">=")) or (x.is_call() and (x.callee or "").split("::")[-1] in ("abs", "fabs"))]
                        if rel:
                            tolerant.append((m.callee, rel[0]))
            if unknown and not tolerant:
                ctx.unrec(f.qn, "C16.g: early return guarded by %s, whose body was not analysed" % unknown[0])
                continue
            ok = not tolerant
            ctx.ob(RULE, f.qn + "(" + f.sig[:40] + ")", "early-return@%d" % n, ok, r.where(), "the setter skips its work only under exact comparisons" if ok else "the setter returns without storing its argument when `%s` says equal, and that operator compares with tolerances (%s): a new setting within the tolerance is dropped, set_up() and the simulation keep the old one" % (tolerant[0][0].split("::", 1)[-1], tolerant[0][1].where()))
            n += 1
    return n


def run(ctx):
    ctx.explanation = (
        "Decides: (a) the per-scatter-point estimate is invariant under exchanging the two detectors, by closed-form algebra on the "
        "returned expression (locals inlined, pow/products/sums normalised with sympy; cos_angle commutes) and on every early-return "
        "guard; (b) it is homogeneous of degree 1 in the two activity line integrals, vanishes for zero activity consistently with the "
        "early return, and the activity enters nowhere else; (c) both cached accessors compute a miss by the uncached function with "
        "the same arguments, store exactly that value in the cell addressed by the same two indices and return it; (d) every public "
        "setter clears _already_set_up, every function replacing an input of a cache drops that cache, and process_data requires "
        "set-up. NOT decided: non-negativity, numerical equality with a freshly configured object."
    )
    ctx.assumptions += ["cos_angle(a,b) == cos_angle(b,a); detection_points_vector[i] and scatt_points_vector[i] are pure look-ups"]
    reqs = requests()
    ctx.ex.prefetch(reqs)
    us = [ctx.ex.get(r) for r in reqs]
    if any(u is None for u in us):
        return
    f0 = [f for f in us[0].functions if f.body is not None]
    if not f0:
        ctx.fail_broken("anchor simulate_for_one_scatter_point not found")
        return
    rule_ab(ctx, f0[0])
    rule_c(ctx, uniq(us[1].functions))
    allf = uniq([f for u in us[1:] for f in u.functions])
    rule_d(ctx, allf + [f for f in uniq(us[0].functions) if (f.file, f.line) not in {(g.file, g.line) for g in allf}])
    rule_e_setup_keeps_settings(ctx, allf)
    ctx.require_count("C16.e-setup-keeps-settings", 6)
    rule_f_derived_data_follows_settings(ctx, allf)
    ctx.require_count("C16.f-derived-data-follows-settings", 8)
    equ = ctx.ex.get(Request("src/buildblock/ExamInfo.cxx", fn=["stir::ExamInfo::operator=="]))
    rule_g_setters_skip_only_on_identity(ctx, allf, equ.functions if equ is not None else [])
    ctx.require_count("C16.g-setters-skip-only-on-identical-values", 1)
    ctx.require_count("C16.a-exchange-symmetry", 3)
    ctx.require_count("C16.b-linear-in-activity", 3)
    ctx.require_count("C16.c-cache-equivalence", 2)
    ctx.require_count("C16.d-invalidation", 15)
