"""C11 - arrays stay in bounds; incompatible operands are errors.  Decided clauses:

 a  RF1  every raw subscript X.num[i] in VectorWithOffset / NumericVectorWithOffset / Array is provably inside
         X's index range from the guards, loop shapes and grow()/resize() post-conditions on every path
         (operator[] is the documented unchecked exception)
 b  RF1  at(i): the guard entails length>0, min<=i<=max and failure throws
 c  RF1  xapyb/sapyb/axpby: the range guard mentions min and max of every operand and ends in error()
 d       Array<1>::resize zero-fills exactly the elements outside the recorded old index range (old start / old size)
"""
import re

from engine import cfg as cfgmod
from engine.bounds import Bounds, loop_invariants
from engine.cfg import CFG, relations
from engine.extract import Request
from engine.algebra import LocalDefs
from engine.tree import key, roots

UNITS = ["src/test/test_Array.cxx", "src/test/test_VectorWithOffset.cxx", "src/buildblock/Array.cxx"]
CLASSES = ("stir::VectorWithOffset", "stir::NumericVectorWithOffset", "stir::Array")

UNCHECKED_BY_CONTRACT = {"operator[]"}  # "Out of range errors are detected using assert()" - class documentation


def requests():
    return [Request(u, fn=[c + "::.*" for c in CLASSES + ("stir::FullArrayIterator",)]) for u in UNITS] + [Request("src/buildblock/IndexRange.cxx", fn=["stir::IndexRange::.*"], files=["/repo/src/buildblock/IndexRange.cxx", "/repo/src/include/stir/IndexRange.inl"])]


def definitions(units):
    """one Function per source definition (file,line), preferring a real instantiation over the template pattern"""
    by = {}
    for u in units:
        if u is None:
            continue
        for f in u.functions:
            # the template pattern begins at its `template <...>` line, an instantiation at the declarator: key on the body
            by.setdefault((f.file, f.body.line if f.body is not None else f.line, f.qn), []).append(f)
    out = []
    for k, fs in sorted(by.items()):
        inst = [f for f in fs if not f.is_dependent]
        out.append((inst or fs)[0])
    return out


def _grow_post_facts(n):
    """X.grow(a,b) / X.resize(a,b) on a VectorWithOffset-like X: afterwards X.min == a and X.max == b.
    For a = std::min(x1,x2) only the consequences X.min <= xi for operands xi that do not mention X are emitted
    (the operand mentioning X is X's value before the call)."""
    if n.k != "CXXMemberCallExpr" or not n.callee:
        return []
    short = n.callee.split("::")[-1]
    if short not in ("grow", "resize") or n.callee.split("::")[1] not in ("VectorWithOffset", "NumericVectorWithOffset", "Array"):
        return []
    args = n.call_args()
    if len(args) != 2:
        return []
    obj = n.c[0]
    okey = key(obj)
    oroots = roots(obj) | ({"this()"} if obj.k == "CXXThisExpr" else set())
    out = []
    for arg, acc, rel_minmax, fn_suffix in ((args[0], "get_min_index", "<=", "min"), (args[1], "get_max_index", ">=", "max")):
        lhs = "%s.%s()" % (okey, acc)
        a = arg.strip()
        rts = frozenset(oroots | roots(a))
        if a.k == "CallExpr" and a.callee in ("std::min", "std::max") and a.callee.endswith(fn_suffix):
            for x in a.call_args():
                if _mentions(x, obj):
                    continue
                out.append(("(%s %s %s)" % (rel_minmax, lhs, key(x)), True, frozenset(oroots | roots(x))))
        elif not _mentions(a, obj):
            out.append(("(== %s %s)" % (lhs, key(a)), True, rts))
    return out


def _mentions(expr, obj):
    ok = key(obj)
    for m in expr.walk():
        if m.k == "CXXThisExpr" and obj.k == "CXXThisExpr":
            return True
        if m.k == "DeclRefExpr" and obj.k == "DeclRefExpr" and key(m) == ok:
            return True
    return False


def _subscripts(fn):
    out = []
    for m in fn.walk():
        if m.k == "ArraySubscriptExpr" and m.c and m.c[0].strip().k == "MemberExpr" and m.c[0].strip().get("n") == "num":
            out.append(m)
    return out


def rule_a(ctx, fn):
    subs = _subscripts(fn)
    if not subs:
        return 0
    if fn.short in UNCHECKED_BY_CONTRACT:
        ctx.stats.setdefault("unchecked_by_contract", []).append("%s %s:%d" % (fn.qnt, fn.file, fn.line))
        return 0
    if fn.is_dependent:
        ctx.note("only the template pattern of %s (%s:%d) is available in the analysed units; analysed in dependent form" % (fn.qn, fn.file, fn.line))
    cfg = CFG(fn)
    n = 0
    for s in subs:
        base = s.c[0].strip()  # MemberExpr num
        obj = base.c[0] if base.c else None
        okey = key(obj) if obj is not None else "?"
        idx = s.c[1].strip()
        ikey = key(idx)
        omin, omax = "%s.get_min_index()" % okey, "%s.get_max_index()" % okey
        if fn.is_dependent:
            omin, omax = "call(%s.get_min_index)" % okey, "call(%s.get_max_index)" % okey
        facts = cfg.facts_at(s) if cfg.is_reachable(s) else frozenset()
        B = Bounds(relations(facts), extra=[])
        for a, op, b in loop_invariants(fn, s):
            B.add(a, op, b)
        # non-emptiness makes min <= max available
        for a, op, b in list(B.rels):
            if a in ("%s.size()" % okey, "%s.get_length()" % okey, "this.length") and op in (">", "!=") and b == "0":
                B.add(omax, ">=", omin)
        lo = B.ge(ikey, omin)
        hi = B.ge(omax, ikey)
        name = "%s.num[%s]" % (key(obj, True), key(idx, True))
        for which, ok in (("lower", lo), ("upper", hi)):
            ctx.ob(
                "C11.a-index-provenance",
                "%s@%s:%d" % (fn.qn, fn.file.split("/")[-1], 0) if False else fn.qn + "(" + fn.sig + ")",
                "%s:%s" % (name, which),
                ok,
                "%s:%d" % (fn.file, s.line),
                ("index %s proven %s %s of the indexed object" % (key(idx, True), ">= get_min_index()" if which == "lower" else "<= get_max_index()", ""))
                if ok
                else "cannot prove %s %s %s from guards/loop bounds/grow post-conditions; facts: %s"
                % (key(idx, True), ">=" if which == "lower" else "<=", (omin if which == "lower" else omax), sorted(r for r in B.rels if ikey in (r[0],) or okey + ".get_m" in r[0])[:8]),
            )
            n += 1
    return n


def rule_b_at(ctx, fn):
    """checked access: at(i) of VectorWithOffset itself"""
    subs = _subscripts(fn)
    if not subs:
        return
    cfg = CFG(fn)
    for s in subs:
        facts = cfg.facts_at(s)
        rels = relations(facts)
        B = Bounds(rels)
        idx = key(s.c[1].strip())
        lo = B.ge(idx, "this.get_min_index()")
        hi = B.ge("this.get_max_index()", idx)
        nonempty = ("this.length", "!=", "0") in rels or ("this.length", ">", "0") in rels or any(a == "this.size()" and op in (">", "!=") and b == "0" for a, op, b in rels)
        # failing branch must throw: every normal-return path has the facts, and there is a throw
        throws = [m for m in fn.walk() if m.k == "CXXThrowExpr" or (m.is_call() and m.callee == "stir::error")]
        ok = lo and hi and nonempty and bool(throws)
        ctx.ob(
            "C11.b-checked-access",
            fn.qn + "(" + fn.sig + ")" + (" const" if fn.is_const else ""),
            "at-guard",
            ok,
            "%s:%d" % (fn.file, s.line),
            "lower=%s upper=%s non-empty=%s throws=%s" % (lo, hi, nonempty, bool(throws)),
        )


def rule_c_operand_guards(ctx, fn):
    """xapyb: every Array/vector operand's min and max is compared with this's, failure -> error()"""
    operands = [p for p in fn.params if re.search(r"(NumericVectorWithOffset|Array)\b.*&$", p["t"]) and p["t"].startswith("const")]
    if not operands:
        return
    cfg = CFG(fn)
    # program point: the first statement after the guard `if (...) error(...)`
    guard = None
    for m in fn.walk():
        if m.k == "IfStmt" and len(m.c) >= 2 and any(x.is_call() and x.callee == "stir::error" for x in m.c[1].walk()):
            guard = m
            break
    if guard is None or guard.parent is None:
        for p in operands:
            ctx.ob("C11.c-operand-range-guard", fn.qn + "(" + fn.sig + ")", "operand:%s" % p["n"], False, fn.where(), "no range guard ending in error()")
        return
    sibs = guard.parent.c
    after = sibs[sibs.index(guard) + 1] if sibs.index(guard) + 1 < len(sibs) else None
    common = frozenset()
    if after is not None:
        for m in after.walk():
            if m.i in cfg.pos:
                pass
        cands = [m for m in after.walk() if m.i in cfg.pos]
        if cands:
            first = min(cands, key=lambda m: (-cfg.pos[m.i][0], cfg.pos[m.i][1]))
            common = cfg.facts_at(first)
    rels = relations(common or frozenset())
    B = Bounds(rels)
    is_array = "stir::Array::" in fn.qn
    for p in operands:
        pk = "v%d" % p["d"]
        if is_array:
            ok = B.ge("this.get_index_range()", pk + ".get_index_range()") and B.ge(pk + ".get_index_range()", "this.get_index_range()")
            ok = ok or any(a == "this.get_index_range()" and op == "==" and b == pk + ".get_index_range()" for a, op, b in rels)
            what = "get_index_range() equality"
        else:
            ok = all(
                any(a == "this.%s()" % acc and op == "==" and b == "%s.%s()" % (pk, acc) for a, op, b in rels)
                for acc in ("get_min_index", "get_max_index")
            )
            what = "get_min_index()/get_max_index() equality"
        ctx.ob(
            "C11.c-operand-range-guard",
            fn.qn + "(" + fn.sig + ")",
            "operand:%s" % p["n"],
            ok,
            fn.where(),
            ("%s with *this established on every normal path" % what) if ok else ("no %s between *this and operand %s on some normal path" % (what, p["n"])),
        )


def rule_d_zero_fill(ctx, fn):
    """Array<1,T>::resize(min,max): elements newly exposed by growing are zero.  The function records the old index range,
    resizes the base vector, then zero-fills below the old start and from old start + old length upwards."""
    from engine.algebra import LocalDefs

    fid = fn.qn + "(" + fn.sig + ")"
    cfg = CFG(fn)
    defs = LocalDefs(fn)
    rs = [c for c in fn.calls() if (c.callee or "").endswith("VectorWithOffset::resize") and c.call_object() is not None and c.call_object().k == "CXXThisExpr"]
    if len(rs) != 1:
        ctx.unrec(fid, "expected exactly one call of the base class resize")
        return
    R = rs[0]
    pmin, pmax = ("v%d" % p["d"] for p in fn.params[:2])
    newmin, newmax = {"this.get_min_index()", pmin}, {"this.get_max_index()", pmax}

    def old_value(node, wanted):
        """node is a DeclRefExpr to a local with a single definition, evaluated before R, equal to one of `wanted` accessors"""
        n = node.strip()
        if n.k != "DeclRefExpr" or n.get("dk") != "local":
            return None, key(n, True)
        init = defs.single_def(n.get("d"))
        if init is None:
            return None, key(n, True)
        k = key(init.strip())
        before = init.i in cfg.pos and cfg.dominates(init, R) and init.i != R.i
        return (k in wanted and before), key(init, True)

    zero_loops = []
    for lp in fn.walk():
        if lp.k != "ForStmt":
            continue
        body = lp.c[3]
        z = [m for m in body.walk() if (m.is_call() and m.callee == "stir::assign" and len(m.call_args()) == 2 and key(m.call_args()[1].strip()) in ("0", "0.0")) or (m.k == "BinaryOperator" and m.op == "=" and key(m.c[1].strip()) in ("0", "0.0"))]
        if z and any("this.num[" in key(m, True) for m in z):
            zero_loops.append(lp)
    if len(zero_loops) != 3:
        ctx.unrec(fid, "expected three zero-fill loops (old range empty / below old start / above old end), found %d" % len(zero_loops))
        return
    results = {}
    for lp in zero_loops:
        init, cond, inc = lp.c[0], lp.c[1], lp.c[2]
        iv = [m for m in init.walk() if m.k == "VarDecl" and m.c]
        if len(iv) != 1:
            ctx.unrec(fid, "zero-fill loop at line %d: no single loop variable" % lp.line)
            return
        v = "v%d" % iv[0].get("d")
        ik = key(iv[0].c[0].strip())
        from engine.cfg import atoms as _atoms

        cat = [(key(a.strip()), t) for a, t in _atoms(cond, True)]
        upper_ok = any(k in ["(<= %s %s)" % (v, x) for x in newmax] + ["(< %s (+ %s 1))" % (v, x) for x in newmax] and t for k, t in cat)
        facts = cfg.facts_at(iv[0].c[0]) if iv[0].c[0].i in cfg.pos else frozenset()
        empty_branch = any(tv is True and k.startswith("(== ") and k.endswith(" 0)") for k, tv, _r in facts)
        if empty_branch:
            # old range empty: everything is new
            lenvar = [k for k, tv, _r in facts if tv is True and k.startswith("(== ") and k.endswith(" 0)")][0][4:-3]
            ln = [m for m in fn.walk() if m.k == "DeclRefExpr" and key(m) == lenvar]
            okl, how = old_value(ln[0], {"this.size()", "this.get_length()"}) if ln else (None, lenvar)
            results["empty"] = (ik in newmin and upper_ok and okl is True, "old range empty (%s == 0, %s): zero [%s, new max]" % (lenvar, how, ik), okl)
        elif ik in newmin:
            # below the old start
            lim = [k for k, t in cat if t and k.startswith("(< %s " % v)]
            okl, how = (None, "?")
            if lim:
                nm = lim[0][len("(< %s " % v) : -1]
                ref = [m for m in cond.walk() if m.k == "DeclRefExpr" and key(m) == nm]
                okl, how = old_value(ref[0], {"this.get_min_index()"}) if ref else (None, nm)
            results["below"] = (bool(lim) and upper_ok and okl is True, "zero [new min, old start) with old start = %s" % how, okl)
        else:
            # from old start + old length
            e = iv[0].c[0].strip()
            okl, how = None, key(e, True)
            if e.k == "CallExpr" and e.callee == "std::max" and len(e.c) == 2:
                parts = [a.strip() for a in e.c]
                other = [a for a in parts if key(a) in newmin]
                summ = [a for a in parts if key(a) not in newmin]
                if other and summ and summ[0].k == "BinaryOperator" and summ[0].op == "+":
                    a, b = summ[0].c[0].strip(), summ[0].c[1].strip()
                    oa, ha = old_value(a, {"this.get_min_index()"})
                    ob, hb = old_value(b, {"this.size()", "this.get_length()"})
                    if oa is True and ob is None or oa is None:
                        oa2, ha2 = old_value(b, {"this.get_min_index()"})
                        ob2, hb2 = old_value(a, {"this.size()", "this.get_length()"})
                        if oa2 is True:
                            oa, ha, ob, hb = oa2, ha2, ob2, hb2
                    okl = None if (oa is None or ob is None) else (oa and ob)
                    how = "max(%s + %s, new min)" % (ha, hb)
            results["above"] = (upper_ok and okl is True, "zero [%s, new max]" % how, okl)
    for part in ("empty", "below", "above"):
        if part not in results:
            ctx.unrec(fid, "zero-fill loop for part '%s' not recognised" % part)
            continue
        ok, det, recognised = results[part]
        if recognised is None:
            ctx.unrec(fid, "zero-fill part '%s': bound not expressed through recorded old range (%s)" % (part, det))
            continue
        ctx.ob("C11.d-new-elements-zeroed", fid, "zero-fill:" + part, ok, fn.where(), det if ok else "newly exposed elements not covered: " + det)


def rule_e_bulk_write_fits(ctx, fn):
    """Every bulk write std::copy(src, src+n, this->begin()) in a VectorWithOffset member must fit the storage: either the range was
    just established by resize()/grow() with n == length (post-condition of resize), or (capacity re-use) the current range was reset
    to the START of the allocation (length = 0, start = 0, num = begin_allocated_memory) before the capacity test, the capacity is
    tested against / reserved for the source's size, and the length is taken from the source - on every path.  (Defect F10 and its
    independent re-introduction: a vector shrunk at the left re-used `capacity()` elements counted from the middle of the block.)"""
    from engine.tree import root_of_lvalue, written_lvalues

    cfg = CFG(fn)
    copies = [c for c in fn.calls() if c.callee == "std::copy" and len(c.call_args()) == 3 and key(c.call_args()[2].strip()) == "this.begin()"]
    n = 0
    for ci, c in enumerate(copies):
        a0, a1 = key(c.call_args()[0].strip()), key(c.call_args()[1].strip())
        fid = fn.qn + "(" + fn.sig[:40] + ")"

        def assigns(field, valuekey):
            return [m for m in fn.walk() if m.k == "BinaryOperator" and m.op == "=" and key(m.c[0].strip()) == "this." + field and key(m.c[1].strip()) in valuekey and m.i in cfg.pos]

        def writers(fields):
            out = []
            for m in fn.walk():
                if m.i not in cfg.pos:
                    continue
                for e in written_lvalues(m):
                    if root_of_lvalue(e) in fields:
                        out.append(m)
            return out

        # case A: established by resize()/grow() of *this, n == this->length
        rs = [m for m in fn.walk() if m.k == "CXXMemberCallExpr" and (m.callee or "").split("::")[-1] in ("resize", "grow") and m.c and m.c[0].k == "CXXThisExpr" and cfg.dominates(m, c) and m.i != c.i]
        if rs and a1 == "(+ %s this.length)" % a0:
            r = rs[-1]
            between = [w for w in writers({"this.length", "this.start", "this.num"}) if cfg.dominates(r, w) and w.i != r.i and cfg.dominates(w, c)]
            ok = not between
            ctx.ob("C11.e-bulk-write-fits-storage", fid, "copy@%d:after-resize" % ci, ok, c.where(), "copies this->length elements right after this->resize(...) established the range" if ok else "range changed between resize() and the copy (line %d)" % between[0].line)
            n += 1
            continue
        # case B: capacity re-use: source is another vector X: copy(X.begin(), X.end(), this->begin())
        m0 = re.fullmatch(r"(v\d+)\.begin\(\)", a0)
        if not (m0 and a1 == m0.group(1) + ".end()"):
            ctx.unrec(fn.qn, "bulk copy into this->begin() at line %d from a source the rule does not understand" % c.line)
            continue
        X = m0.group(1)
        det = []
        trunc = {"length": assigns("length", {"0"}), "start": assigns("start", {"0"}), "num": assigns("num", {"this.begin_allocated_memory"})}
        captest = [m for m in fn.walk() if m.k == "IfStmt" and m.c and key(m.c[0].strip()) in ("(< this.capacity() %s.size())" % X, "(> %s.size() this.capacity())" % X)]
        reserves = [m for m in fn.walk() if m.k == "CXXMemberCallExpr" and (m.callee or "").endswith("::reserve") and m.c and m.c[0].k == "CXXThisExpr" and [key(a.strip()) for a in m.call_args()] == [X + ".get_min_index()", X + ".get_max_index()"]]
        uncond = [r for r in reserves if cfg.dominates(r, c)]
        cond = [r for r in reserves if captest and any(a is captest[0].c[1] or any(b is captest[0].c[1] for b in a.ancestors()) for a in [r] + list(r.ancestors()))] if len(captest) == 1 and len(captest[0].c) == 2 else []
        cap_ok = bool(uncond) or (len(captest) == 1 and bool(cond) and cfg.dominates(captest[0].c[0].strip(), c))
        if not cap_ok:
            det.append("no `if (capacity() < src.size()) reserve(src range)` (or unconditional reserve) before the copy")
        anchor = (uncond[0] if uncond else (captest[0].c[0].strip() if captest else c))
        for fld, lst in trunc.items():
            good = [t for t in lst if cfg.dominates(t, anchor) and cfg.dominates(t, c)]
            if not good:
                det.append("%s is not reset to the start of the allocation on every path before the capacity test (so capacity() counts elements that lie before the current first element)" % fld)
        # after the reset, only set_offset / reserve / `length = src.length` touch the range before the copy
        lens = [m for m in fn.walk() if m.k == "BinaryOperator" and m.op == "=" and key(m.c[0].strip()) == "this.length" and key(m.c[1].strip()) in (X + ".length", X + ".size()", "(unsigned int)%s.size()" % X) and m.i in cfg.pos and cfg.dominates(m, c)]
        if not lens:
            det.append("length is not taken from the source before the copy")
        resets = [t for lst in trunc.values() for t in lst]
        stray = [w for w in writers({"this.start", "this.num", "this.length"}) if w not in resets and w not in lens and not (w.k == "CXXMemberCallExpr") and cfg.dominates(w, c) and w.i != c.i]
        if stray:
            det.append("start/num/length changed at line %d between the reset and the copy" % stray[0].line)
        ctx.ob("C11.e-bulk-write-fits-storage", fid, "copy@%d:capacity-reuse" % ci, not det, c.where(), "range reset to the start of the allocation, capacity tested/reserved for the source's size, length taken from the source - on every path to the copy" if not det else "; ".join(det))
        n += 1
    return n


PURE = ("begin", "end", "get_min_index", "get_max_index", "get_length", "size", "size_all")


def rule_g_no_self_comparison(ctx, fns):
    """Size, index range, regularity and equality must reflect the CONTENTS: a comparison that decides them has to compare two
    different things.  `x == x`, `std::equal(a.begin(), a.end(), a.begin())` and the like are always true, so the decision silently
    ignores part of the data (e.g. the maximum indices of the other rows)."""
    n = 0
    for f in fns:
        if f.body is None:
            continue
        bad = []
        cnt = 0
        for m in f.walk():
            if m.k in ("BinaryOperator", "CXXOperatorCallExpr") and m.op in ("==", "!=", "<", ">", "<=", ">=") and len(m.c) == 2:
                a, b = m.c[0].strip(), m.c[1].strip()
                cnt += 1
                if key(a) == key(b) and not any(x.is_call() and (x.callee or "").split("::")[-1] not in PURE for x in list(a.walk())) and not any(x.k in ("UnaryOperator",) and x.op in ("++", "--") for x in a.walk()):
                    bad.append((m, "`%s %s %s`" % (key(a, True), m.op, key(b, True))))
            elif m.is_call() and m.callee in ("std::equal", "std::mismatch", "std::lexicographical_compare") and len(m.call_args()) >= 3:
                a = [key(x.strip()) for x in m.call_args()]
                cnt += 1
                if a[0] == a[2]:
                    bad.append((m, "`%s(%s, %s, %s)` compares a range with itself" % (m.callee, key(m.call_args()[0], True), key(m.call_args()[1], True), key(m.call_args()[2], True))))
        if cnt:
            ctx.ob("C11.g-comparisons-compare-two-things", f.qn + "(" + f.sig[:30] + ")", "comparisons", not bad, (bad[0][0] if bad else f).where() if bad else f.where(), "%d comparisons, none of an expression with itself" % cnt if not bad else bad[0][1] + ": always true, the decision ignores what it should look at")
            n += 1
    return n


def rule_h_nd_resize_starts_new_rows_empty(ctx, fn):
    """Induction step of `newly exposed elements are zero` for N > 1 dimensions.  Array<N>::resize(range) resizes the outer vector and
    then every sub-array; the outer vector keeps dropped sub-arrays in its spare capacity, so a sub-array that is exposed AGAIN still
    has its old range and values and its own resize() would treat them as surviving.  Hence: the outer index range is recorded before
    the outer resize, and every element whose index lies outside it (or every element, if the array was empty) is emptied
    (recycle() / assignment of a default-constructed array) before its resize()."""
    cfg = CFG(fn)
    fid = fn.qn + "(" + fn.sig + ")"
    outer = [c for c in fn.calls() if (c.callee or "").endswith("VectorWithOffset::resize") and c.i in cfg.pos]
    inner = [c for c in fn.calls() if c.k == "CXXMemberCallExpr" and (c.callee or "").endswith("Array::resize") and c.c and key(c.c[0].strip()).startswith(("*", "(* ")) and any(a.k in ("ForStmt", "WhileStmt") for a in c.ancestors())]
    if len(outer) != 1 or len(inner) != 1:
        ctx.unrec(fid, "expected one resize of the outer vector and one resize of the elements in a loop")
        return 0
    R = inner[0]
    elem = key(R.c[0].strip())
    loop = [a for a in R.ancestors() if a.k in ("ForStmt", "WhileStmt")][0]
    defs = LocalDefs(fn)
    empt = []
    for m in loop.walk():
        if m.k == "CXXMemberCallExpr" and (m.callee or "").split("::")[-1] == "recycle" and m.c and key(m.c[0].strip()) == elem:
            empt.append(m)
        elif m.k in ("BinaryOperator", "CXXOperatorCallExpr") and m.op == "=" and key(m.c[-2].strip()) == elem and m.c[-1].strip().k in ("CXXTemporaryObjectExpr", "CXXConstructExpr") and not m.c[-1].strip().c:
            empt.append(m)
    if not empt:
        ctx.ob("C11.h-new-rows-start-empty", fid, "re-exposed-sub-arrays", False, R.where(), "no element is emptied before `%s.resize(..)`: a sub-array that was dropped by an earlier resize (it stays in the outer vector's spare capacity) and is exposed again keeps its old values instead of being zero" % key(R.c[0], True))
        return 1
    E = empt[0]
    # the emptying precedes the element's resize in the loop body and is guarded by `outside the recorded old range`
    precedes = cfg.dominates(E, R) or cfg.paths_avoiding([cfg.pos[E.i]], lambda x: False, target_pred=lambda x: x.i == R.i, to_exit=False) is not None
    guard = [a for a in E.ancestors() if a.k == "IfStmt" and any(x is a for x in loop.walk())]
    ok, det = False, ""
    if not guard:
        ok, det = precedes, "every element is emptied before its resize"  # stronger than needed only if surviving values may be lost: checked next
        # emptying unconditionally would destroy surviving elements
        ok, det = False, "every element is emptied before its resize: surviving elements lose their values"
    else:
        cnd = guard[0].c[0].strip()
        parts = []

        def disj(c):
            c = c.strip()
            if c.k == "BinaryOperator" and c.op == "||":
                disj(c.c[0])
                disj(c.c[1])
            else:
                parts.append(c)

        disj(cnd)
        def in_graph(n):
            while n is not None and n.i not in cfg.pos:
                n = n.parent
            return n

        def before(d):
            vd = defs.decl.get(d)
            g = in_graph(vd) if vd is not None else None
            return g is not None and vd.c and cfg.dominates(g, outer[0]) and g.i != outer[0].i and not defs.writes.get("v%d" % d)

        lo = hi = emp = False
        idx = None
        for c in parts:
            if c.k == "DeclRefExpr" and c.get("dk") == "local" and before(c.get("d")) and re.search(r"\(== this\.size\(\) 0\)|this\.empty\(\)|\(== this\.get_length\(\) 0\)", key(defs.decl[c.get("d")].c[0].strip())):
                emp = True
            elif c.k == "BinaryOperator" and c.op in ("<", ">") and all(x.strip().k == "DeclRefExpr" for x in c.c):
                a, b = c.c[0].strip(), c.c[1].strip()
                bd = b.get("d")
                if before(bd):
                    src = key(defs.decl[bd].c[0].strip())
                    if c.op == "<" and src == "this.get_min_index()":
                        lo, idx = True, a.get("d") if idx in (None, a.get("d")) else -1
                    if c.op == ">" and src == "this.get_max_index()":
                        hi, idx = True, a.get("d") if idx in (None, a.get("d")) else -1
        # the index runs with the iterator: initialised with the (new) minimum index after the outer resize and incremented once per turn
        idx_ok = False
        if idx not in (None, -1) and defs.decl.get(idx) is not None and defs.decl[idx].c:
            gi = in_graph(defs.decl[idx])
            init_ok = key(defs.decl[idx].c[0].strip()) == "this.get_min_index()" and gi is not None and cfg.dominates(outer[0], gi)
            incs = [m for m in loop.walk() if m.k == "UnaryOperator" and m.op in ("++",) and m.c[0].strip().k == "DeclRefExpr" and m.c[0].strip().get("d") == idx]
            idx_ok = init_ok and len(incs) == 1 and len(defs.writes.get("v%d" % idx, [])) == 1
        ok = precedes and lo and hi and emp and idx_ok
        det = "outer range recorded before the outer resize; an element with index below the old minimum, above the old maximum, or any element of a previously empty array is emptied before its resize" if ok else "emptying is not guarded by `was empty || index < old minimum || index > old maximum` with the outer range recorded before the outer resize (below=%s above=%s was-empty=%s index-in-step=%s precedes=%s)" % (lo, hi, emp, idx_ok, precedes)
    ctx.ob("C11.h-new-rows-start-empty", fid, "re-exposed-sub-arrays", ok, R.where(), det)
    return 1


def _cmp_of(m, wanted):
    """m is `A == B` / `A != B` (built-in or overloaded) with {key(A), key(B)} == wanted"""
    if m.k not in ("BinaryOperator", "CXXOperatorCallExpr") or m.op not in ("==", "!=") or len(m.c) < 2:
        return False
    return {key(m.c[-2].strip()), key(m.c[-1].strip())} == set(wanted)


def rule_i_full_iteration_skips_empty(ctx, defs):
    """Full iteration visits each element exactly once: a full iterator is either at the end or its range over the current sub-array
    is NOT empty (operator* and the `rest == last` test of operator++ rely on it).  Hence (1) in FullArrayIterator::operator++ every
    load of a new sub-array range (current_rest_iter = X.begin_all()) is followed, on every path to the return, by a test of that
    range for emptiness; (2) Array<N>::begin_all()/begin_all_const() return (it, end, B, E) only after a test B != E."""
    RULE = "C11.i-full-iteration-skips-empty"
    n = 0
    seen = set()
    for f in defs:
        if f.body is None or not f.cfg_raw or (f.file, f.body.line) in seen:
            continue
        if f.cls == "stir::FullArrayIterator" and f.short == "operator++" and not f.params:
            seen.add((f.file, f.body.line))
            cfg = CFG(f)
            loads = [m for m in f.walk() if m.k in ("BinaryOperator", "CXXOperatorCallExpr") and m.op == "=" and key(m.c[-2].strip()) == "this.current_rest_iter" and "begin_all" in key(m.c[-1])]
            if not loads:
                ctx.unrec(f.qn, "no load of a new sub-array range (current_rest_iter = X.begin_all()) found")
                continue
            w = cfg.must_pass_before_exit([m for m in loads if m.i in cfg.pos], lambda x: _cmp_of(x, ("this.current_rest_iter", "this.last_rest_iter")))
            ok = w is None and all(m.i in cfg.pos for m in loads)
            ctx.ob(RULE, f.qn + "()", "new-range-tested-for-emptiness", ok, loads[0].where(), "after moving to the next sub-array its range is tested for emptiness before returning" if ok else "operator++ moves to the next sub-array and returns without testing whether it is empty: for an array with an empty row the iterator never equals end_all() again and runs past the data")
            n += 1
        elif f.cls == "stir::Array" and f.short in ("begin_all", "begin_all_const") and not f.is_dependent:
            rets = [m for m in f.walk() if m.k == "ReturnStmt" and any(c.k in ("CXXConstructExpr", "CXXTemporaryObjectExpr") and len(c.call_args()) == 4 for c in m.walk())]
            if not rets:
                continue  # the one-dimensional case returns begin()
            seen.add((f.file, f.body.line))
            cfg = CFG(f)
            for r in rets:
                cons = [c for c in r.walk() if c.k in ("CXXConstructExpr", "CXXTemporaryObjectExpr") and len(c.call_args()) == 4][0]
                a = cons.call_args()
                b, e = key(a[2].strip()), key(a[3].strip())
                w = cfg.must_pass_from_entry([r], lambda x: _cmp_of(x, (b, e))) if r.i in cfg.pos else "?"
                ok = w is None
                ctx.ob(RULE, f.qn + ("() const" if f.is_const else "()"), "start-not-empty", ok, r.where(), "the full iterator starts at a sub-array whose range %s..%s was tested to be non-empty" % (b, e) if ok else "begin_all() starts at a sub-array without testing that it is non-empty (%s == %s is possible): iteration over an array whose first row is empty dereferences past the data" % (b, e))
                n += 1
    return n


def rule_j_resize_default_initialises(ctx, defs):
    """VectorWithOffset::resize(min,max) documents `new elements are set to T()`.  The allocated memory can still hold elements removed
    by an earlier resize(), so this needs code: after the range has been set there is a loop over the whole new range that assigns
    T() to num[i], skipping only i inside [K1, K2] where every value K1/K2 can take is the overlap of old and new range (or an empty
    default)."""
    RULE = "C11.j-resize-default-initialises-new-elements"
    from engine.loops import bounds as lbounds

    n = 0
    for f in defs:
        if not (f.cls == "stir::VectorWithOffset" and f.short == "resize" and len(f.params) == 2 and not f.is_dependent and f.body is not None and f.cfg_raw):
            continue
        fid = f.qn + "(" + f.sig + ")"
        cfg = CFG(f)
        defs_ = LocalDefs(f)
        pmin, pmax = ("v%d" % p["d"] for p in f.params[:2])
        res = [c for c in f.calls() if (c.callee or "").endswith("::reserve")]
        found, why = False, "no loop assigning T() to the new elements after reserve()"
        for lp in f.walk():
            if lp.k != "ForStmt":
                continue
            asg = [m for m in lp.c[3].walk() if m.k in ("BinaryOperator", "CXXOperatorCallExpr") and m.op == "=" and key(m.c[-2].strip(), True).startswith("this.num[")]
            asg = [m for m in asg if m.c[-1].strip().k in ("CXXScalarValueInitExpr", "CXXUnresolvedConstructExpr") or (m.c[-1].strip().k in ("CXXTemporaryObjectExpr", "CXXConstructExpr") and not m.c[-1].strip().call_args()) or key(m.c[-1].strip()) in ("0", "T()")]
            if not asg:
                continue
            b = lbounds(lp)
            if b is None:
                why = "fill loop at line %d not in a recognised shape" % lp.line
                continue
            iv, lo, hi = "v%d" % b["d"], b["init"], b["upper"]
            whole = lo in ("this.get_min_index()", pmin, "this.start") and hi in ("this.get_max_index()", pmax) and str(b.get("step", "1")) == "1"
            after = all(cfg.dominates(r, lp.c[1]) if (r.i in cfg.pos and lp.c[1].i in cfg.pos) else False for r in res) and bool(res)
            conds = [a for a in asg[0].ancestors() if a.k == "IfStmt" and _within(a, lp)]
            kept_ok, kdet = True, "every new element"
            if conds:
                kept_ok = False
                if len(conds) == 1:
                    kk = key(conds[0].c[0].strip())
                    mm = re.fullmatch(r"\(\|\| \(< %s (v\d+)\) \(> %s (v\d+)\)\)" % (iv, iv), kk) or re.fullmatch(r"\(\|\| \(> %s (v\d+)\) \(< %s (v\d+)\)\)" % (iv, iv), kk)
                    if mm:
                        k1, k2 = (mm.group(1), mm.group(2)) if kk.startswith("(|| (<") else (mm.group(2), mm.group(1))

                        def values(v):
                            d = int(v[1:])
                            out = []
                            if defs_.decl.get(d) is not None and defs_.decl[d].c:
                                out.append(defs_.decl[d].c[0].strip())
                            for w in defs_.writes.get(v, []):
                                w = w.strip()
                                out.append(w.c[1].strip() if w.k == "BinaryOperator" and w.op == "=" and len(w.c) == 2 else w)
                            return out

                        def resolves(e, fn_name, acc, par):
                            ke = key(e)
                            if e.k == "DeclRefExpr" and e.get("dk") == "local":
                                i1 = defs_.single_def(e.get("d"))
                                if i1 is not None:
                                    ke = key(i1.strip())
                            return ke in ("std::%s(this.%s(),%s)" % (fn_name, acc, par), "std::%s(%s,this.%s())" % (fn_name, par, acc))

                        v1, v2 = values(k1), values(k2)
                        ok1 = bool(v1) and all(resolves(e, "max", "get_min_index", pmin) or key(e) == "(+ %s 1)" % pmax for e in v1)
                        ok2 = bool(v2) and all(resolves(e, "min", "get_max_index", pmax) or key(e) == pmax for e in v2)
                        kept_ok = ok1 and ok2
                        kdet = "every element outside the overlap [%s, %s] of the old and the new range" % (k1, k2)
                        if not kept_ok:
                            # the values of the skipped range are written in a way this rule does not understand: no verdict
                            ctx.unrec(fid, "the skipped range [%s, %s] of the fill loop is not expressed through the overlap of old and new range (%s ; %s)" % (k1, k2, ", ".join(key(e, True) for e in v1), ", ".join(key(e, True) for e in v2)))
                            return n
                    else:
                        kdet = "guard `%s` not of the form i < K1 || i > K2" % key(conds[0].c[0], True)
                else:
                    kdet = "more than one condition around the assignment"
            if whole and after and kept_ok:
                found, why = True, "after reserve(), T() is assigned to %s of the new range [%s, %s]" % (kdet, lo, hi)
                break
            why = "fill loop at line %d: %s%s%s" % (lp.line, "" if whole else "does not run over the whole new range (%s..%s); " % (lo, hi), "" if after else "not after reserve(); ", "" if kept_ok else kdet)
        ctx.ob(RULE, fid, "new-elements-assigned-T()", found, f.where(), why if found else "elements that come back into the range inside the allocated memory keep their old contents (documented: `new elements are set to T()`): " + why)
        n += 1
        break
    return n


def _within(a, lp):
    return any(x is a for x in lp.walk())


def rule_k_empty_operand_range_unused(ctx, defs):
    """An empty vector reports the index range [0,-1], which means nothing.  Wherever a member of the array classes computes a new range
    for grow()/resize()/reserve() from the index range of an operand, the operand is known to be non-empty there."""
    RULE = "C11.k-empty-operand-range-not-used"
    n = 0
    seen = set()
    for f in defs:
        if f.body is None or not f.cfg_raw or f.is_dependent or f.cls not in CLASSES or (f.file, f.body.line) in seen:
            continue
        params = {"v%d" % p["d"]: p for p in f.params if re.search(r"VectorWithOffset|Array", p["t"])}
        if not params:
            continue
        cfg = None
        for c in f.calls():
            if (c.callee or "").split("::")[-1] not in ("grow", "resize"):  # reserve() only changes the capacity
                continue
            used = set()
            for a in c.call_args():
                for m in a.walk():
                    if m.k == "CXXMemberCallExpr" and (m.callee or "").split("::")[-1] in ("get_min_index", "get_max_index") and m.c and key(m.c[0].strip()) in params:
                        used.add(key(m.c[0].strip()))
            if not used:
                continue
            seen.add((f.file, f.body.line))
            cfg = cfg or CFG(f)
            facts = cfg.facts_at(c) if c.i in cfg.pos else frozenset()
            for v in sorted(used):
                nonempty = any((k in ("(== %s.get_length() 0)" % v, "(== %s.size() 0)" % v, "%s.empty()" % v) and tv is False) or (k in ("(> %s.get_length() 0)" % v, "(> %s.size() 0)" % v, "(!= %s.get_length() 0)" % v, "(!= %s.size() 0)" % v) and tv is True) for k, tv, _r in facts)
                ctx.ob(RULE, f.qn + "(" + f.sig[:60] + ")", "operand:" + params[v]["n"] if "n" in params[v] else v, nonempty, c.where(), "the operand is known to be non-empty where its index range enters %s()" % c.callee.split("::")[-1] if nonempty else "the index range of the operand enters %s() although the operand may be empty: its range is then [0,-1] and the result's range is extended towards 0 for no element" % c.callee.split("::")[-1])
                n += 1
    return n


def rule_l_cached_regularity_not_claimed_for_unfilled_ranges(ctx, units):
    """IndexRange<N> caches whether it is regular; its rows live in its public base class VectorWithOffset<IndexRange<N-1>>, whose grow()
    and operator[] change them without the cache being told.  A constructor may record `regular_true` only for a range it has filled
    itself (base constructed with an extent AND fill() called); a constructor that leaves the base empty or copies rows of unknown shape
    must record `regular_to_do` or copy the knowledge of its source.  Otherwise size_all() multiplies the first row's size by the
    number of rows and Array(range) allocates too small a block (F83)."""
    RULE = "C11.l-regularity-not-claimed-for-unfilled-ranges"
    n = 0
    seen = set()
    for u in units:
        if u is None:
            continue
        for f in sorted(u.functions, key=lambda g: not bool(g.is_dependent)):
            if not f.qn.startswith("stir::IndexRange::IndexRange") or f.body is None or (f.file, f.body.line) in seen:
                continue
            inits = {(it.get("field") or "base"): node for it, node in f.inits}
            if "is_regular_range" not in inits or inits["is_regular_range"] is None:
                continue
            seen.add((f.file, f.body.line))
            flag = key(inits["is_regular_range"])
            base = key(inits["base"]) if inits.get("base") is not None else ""
            fills = any((c.callee or "").split("::")[-1] == "fill" or (c.k in ("CXXDependentScopeMemberExpr", "UnresolvedMemberExpr") and c.get("n") == "fill") for c in f.walk())
            fills = fills or any(m.get("n") == "fill" for m in f.walk() if m.k in ("CXXDependentScopeMemberExpr", "UnresolvedMemberExpr", "MemberExpr"))
            base_has_extent = bool(re.search(r"\[1\]", base))
            claims = "regular_true" in flag
            ok = not claims or (base_has_extent and fills)
            ctx.ob(RULE, "stir::IndexRange<N>::IndexRange(" + f.sig[:60] + ")", "initial-knowledge", ok, f.where(), ("records %s" % flag.split("::")[-1].rstrip(")")) + ("" if not claims else " for a range it sizes and fills itself") if ok else "records regular_true for a range whose rows it has not made itself (base initialised with `%s`%s): rows added later through the base class make the range irregular without the cached answer changing - size_all() and Array(range) then use the size of the first row for all rows" % (base or "()", "" if fills else ", no fill()"))
            n += 1
    return n


def rule_m_move_takes_each_member_from_the_source(ctx, fns):
    """`surviving elements keep their values` under move construction: a move constructor either exchanges whole objects (swap) or takes
    every member it sets from THE SAME member of its source.  A member recomputed from other members (seed C11-6: `num =
    begin_allocated_memory - start`) silently assumes a relation between them that resize/grow without reallocation breaks."""
    RULE = "C11.m-move-takes-each-member-from-the-source"
    n = 0
    seen = set()
    for f in fns:
        if not f.is_ctor or f.body is None or len(f.params) != 1 or not f.params[0]["t"].rstrip().endswith("&&") or (f.file, f.body.line) in seen:
            continue
        cls = f.qn.rsplit("::", 1)[0]
        if not any(cls.startswith(c) for c in CLASSES):
            continue
        seen.add((f.file, f.body.line))
        pk = "v%d" % f.params[0]["d"]
        swaps = [c for c in f.walk() if (c.is_call() or c.k in ("CallExpr",)) and key(c, True).split("(")[0].split("::")[-1] == "swap" and pk in key(c)]
        sets = []  # (member, rhs node)
        for it, node in f.inits:
            if it.get("field") and node is not None:
                sets.append((it.get("field"), node))
        for m in f.body.walk():
            if m.k in ("BinaryOperator", "CXXOperatorCallExpr") and m.op == "=" and len(m.c) >= 2:
                l = key(m.c[-2].strip() if m.k == "CXXOperatorCallExpr" else m.c[0].strip())
                if l.startswith("this.") and "." not in l[5:] and "(" not in l:
                    sets.append((l[5:], m.c[-1]))
        if swaps and not sets:
            ctx.ob(RULE, f.qn + "(" + f.sig[:40] + ")", "exchange", True, f.where(), "default-constructs and exchanges the whole object with its source")
            n += 1
            continue
        if not sets:
            # everything delegated to base-class / member move constructors
            ctx.ob(RULE, f.qn + "(" + f.sig[:40] + ")", "delegated", True, f.where(), "delegates to the move constructors of its bases and members")
            n += 1
            continue
        bad = []
        for member, rhs in sets:
            r = rhs.strip()
            for _ in range(8):
                if r.is_call() and (r.callee or key(r, True).split("(")[0]).split("<")[0].split("::")[-1] in ("move", "forward") and r.call_args():
                    r = r.call_args()[0].strip()
                elif r.k in ("CXXConstructExpr", "CXXBindTemporaryExpr", "MaterializeTemporaryExpr", "CXXFunctionalCastExpr", "CXXStaticCastExpr", "ImplicitCastExpr", "ExprWithCleanups", "ParenExpr") and len(r.c) == 1:
                    r = r.c[0].strip()
                else:
                    break
            k = key(r)
            if k == "%s.%s" % (pk, member):
                continue
            refs = [x for x in r.walk() if x.k in ("MemberExpr", "DeclRefExpr") and (key(x).startswith(pk + ".") or key(x).startswith("this."))]
            if not refs:
                continue  # a constant
            bad.append((member, r))
        ok = not bad
        ctx.ob(RULE, f.qn + "(" + f.sig[:40] + ")", "member-wise", ok, (bad[0][1] if bad else f).where(), "every member it sets comes from the same member of the source (or is a constant)" if ok else "member `%s` is not taken from the source's `%s` but computed as `%s`: the moved-to object has the source's size and range but shifted contents whenever the source had been resized without reallocation" % (bad[0][0], bad[0][0], key(bad[0][1], True)[:80]))
        n += 1
    return n


def run(ctx):
    ctx.explanation = (
        "Decides from the source, for VectorWithOffset, NumericVectorWithOffset and Array: (a) every raw subscript X.num[i] "
        "outside the documented-unchecked operator[] is provably within X's index range on every path, from range guards "
        "(error()/throw exits), for-loop shapes and the post-conditions of grow()/resize(); (b) at() guards entail "
        "non-emptiness and min<=i<=max and throw otherwise; (c) xapyb (and sapyb/axpby which delegate to it) compare the "
        "range of every operand with *this before touching elements. NOT decided: value semantics under arbitrary "
        "histories (resize/reserve capacity arithmetic, zero fill, aliasing of shared memory, iteration order)."
    )
    ctx.assumptions += [
        "grow(a,b)/resize(a,b) leave the vector with index range exactly [a,b] (class documentation; their own bodies are the C11 'not decided' part)",
        "get_min_index()/get_max_index() are pure accessors; element writes do not change the index range",
        "stir::error never returns; NDEBUG build: assert() is not a guard",
    ]
    cfgmod.POST_FACTS[:] = [_grow_post_facts]
    reqs = requests()
    ctx.ex.prefetch(reqs)
    units = [ctx.ex.get(r) for r in reqs]
    defs = definitions(units)
    if not defs:
        ctx.fail_broken("no function of the array classes found")
        return
    rule_l_cached_regularity_not_claimed_for_unfilled_ranges(ctx, units[-1:])
    rule_m_move_takes_each_member_from_the_source(ctx, defs)
    ctx.require_count("C11.m-move-takes-each-member-from-the-source", 3)
    ctx.require_count("C11.l-regularity-not-claimed-for-unfilled-ranges", 5)
    seen_xapyb = 0
    for fn in defs:
        if fn.body is None or not fn.cfg_raw:
            continue
        if fn.short == "at" and fn.cls == "stir::VectorWithOffset" or (fn.short == "at" and _subscripts(fn)):
            rule_b_at(ctx, fn)
            continue
        rule_a(ctx, fn)
        if fn.short == "xapyb":
            rule_c_operand_guards(ctx, fn)
            seen_xapyb += 1
    # sapyb / axpby must delegate to xapyb
    for fn in defs:
        if fn.short in ("sapyb", "axpby"):
            calls = [c for c in fn.walk() if c.is_call() and (c.callee or "").endswith("::xapyb")]
            dep = [m for m in fn.walk() if m.k in ("CXXDependentScopeMemberExpr", "UnresolvedMemberExpr", "DependentScopeDeclRefExpr") and m.get("n") == "xapyb"]
            ctx.ob("C11.c-operand-range-guard", fn.qn + "(" + fn.sig + ")", "delegates-to-xapyb", bool(calls or dep), fn.where(), "calls xapyb" if (calls or dep) else "does not delegate to the guarded xapyb")
    for fn in defs:
        if fn.qn == "stir::Array::resize" and fn.sig.replace(" ", "") == "constint,constint" and not fn.is_dependent and fn.cfg_raw:
            rule_d_zero_fill(ctx, fn)
            break
    else:
        ctx.fail_broken("anchor Array<1,T>::resize(int,int) instantiation not found")
    for fn in defs:
        if fn.qn == "stir::Array::resize" and "IndexRange" in fn.sig and not fn.is_dependent and fn.cfg_raw and any((c.callee or "").endswith("Array::resize") for c in fn.calls()):
            rule_h_nd_resize_starts_new_rows_empty(ctx, fn)
            break
    else:
        ctx.fail_broken("anchor Array<N,T>::resize(const IndexRange<N>&) instantiation (N > 1) not found")
    ctx.require_count("C11.h-new-rows-start-empty", 1)
    rule_i_full_iteration_skips_empty(ctx, defs)
    ctx.require_count("C11.i-full-iteration-skips-empty", 3)
    rule_j_resize_default_initialises(ctx, defs)
    ctx.require_count("C11.j-resize-default-initialises-new-elements", 1)
    rule_k_empty_operand_range_unused(ctx, defs)
    ctx.require_count("C11.k-empty-operand-range-not-used", 4)
    ne = 0
    seen_e = set()
    for fn in defs:
        if fn.cls == "stir::VectorWithOffset" and fn.cfg_raw and not fn.is_dependent and (fn.file, fn.line) not in seen_e and any(c.callee == "std::copy" for c in fn.calls()):
            seen_e.add((fn.file, fn.line))
            ne += rule_e_bulk_write_fits(ctx, fn)
    rule_g_no_self_comparison(ctx, [f for f in defs if not f.is_dependent])
    ctx.require_count("C11.g-comparisons-compare-two-things", 20)
    ctx.require_count("C11.e-bulk-write-fits-storage", 2)
    # f: element-wise arithmetic walks its operands together: in every loop over several iterators (xapyb, sapyb, ...) each iterator
    # advances exactly once per iteration on every path (with the operand range guards of rule c this keeps every access in range)
    from engine.loops import lockstep_sweep

    lockstep_sweep(ctx, "C11.f-elementwise-lockstep", [f for f in defs if not f.is_dependent])
    ctx.require_count("C11.f-elementwise-lockstep", 4)
    ctx.require_count("C11.d-new-elements-zeroed", 3)
    ctx.stats["definitions_analysed"] = len(defs)
    ctx.require_count("C11.a-index-provenance", 60)
    ctx.require_count("C11.b-checked-access", 2)
    ctx.require_count("C11.c-operand-range-guard", 8)
    cfgmod.POST_FACTS[:] = []
