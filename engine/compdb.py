"""Compilation database for /repo, regenerated on every run from /repo/_build/build.ninja.

Two analysis configurations (DESIGN.md 2.2):
  asbuilt : the flags of the real build (-O2 -DNDEBUG -std=gnu++17, STIR_OPENMP off)
  openmp  : the same plus -fopenmp -DSTIR_OPENMP, so that the OpenMP constructs exist in the AST
"""
import json
import os
import shlex
import subprocess

REPO = os.environ.get("VERIF_REPO", "/repo")
BUILD = os.path.join(REPO, "_build")
RESOURCE_DIR = "/usr/lib/llvm-14/lib/clang/14.0.6"

_cache = None


def _from_ninja():
    out = subprocess.run(["ninja", "-C", BUILD, "-t", "compdb"], capture_output=True, text=True, check=True).stdout
    db = json.loads(out)
    units = {}
    for e in db:
        f = e["file"]
        if not f.endswith((".cxx", ".cpp", ".cc")):
            continue
        if f in units:
            continue
        args = shlex.split(e["command"])
        keep = []
        skip = False
        for a in args[1:]:
            if skip:
                skip = False
                continue
            if a in ("-o", "-MT", "-MF"):
                skip = True
                continue
            if a in ("-c", "-MD", "-MMD") or a == f or a.endswith("/c++") or a.endswith("/g++") or a.endswith("ccache"):
                continue
            if a.startswith("-W") or a == "-g":
                continue
            keep.append(a)
        units[f] = keep
    return units


def _synthesised():
    """Fallback when /repo/_build is absent: every .cxx under src with the standard include dirs."""
    units = {}
    # the one generated header (stir/config.h) comes from a copy kept with the checker when there is no build directory
    fallback = os.path.join(os.path.dirname(os.path.abspath(__file__)), "fallback_include")
    inc = ["-I" + os.path.join(REPO, "src/include"), "-I" + fallback, "-I/usr/include/hdf5/serial", "-O2", "-DNDEBUG", "-std=gnu++17"]
    for root, _dirs, files in os.walk(os.path.join(REPO, "src")):
        for fn in files:
            if fn.endswith(".cxx"):
                units[os.path.join(root, fn)] = list(inc)
    return units


def load():
    """returns (dict source -> flags, origin string)"""
    global _cache
    if _cache is None:
        if os.path.exists(os.path.join(BUILD, "build.ninja")):
            try:
                _cache = (_from_ninja(), "ninja -t compdb on %s/build.ninja" % BUILD)
            except Exception as ex:  # pragma: no cover
                _cache = (_synthesised(), "synthesised (ninja failed: %s)" % ex)
        else:
            _cache = (_synthesised(), "synthesised (no build dir)")
    return _cache


def flags_for(source, config="asbuilt"):
    units, _ = load()
    if source not in units:
        # header-only fixture or new file: borrow the flags of any buildblock unit
        base = None
        for k, v in units.items():
            if "/buildblock/" in k:
                base = v
                break
        if base is None:
            base = ["-I" + os.path.join(REPO, "src/include"), "-I" + os.path.join(BUILD, "src/include"), "-std=gnu++17", "-DNDEBUG"]
        flags = list(base)
    else:
        flags = list(units[source])
    if not any(a.startswith("-std=") for a in flags):
        flags.append("-std=gnu++17")
    flags = ["-resource-dir", RESOURCE_DIR, "-Wno-everything"] + flags
    if config == "openmp":
        flags += ["-fopenmp", "-DSTIR_OPENMP"]
    elif config != "asbuilt":
        raise ValueError(config)
    return flags


def all_units():
    units, _ = load()
    return sorted(units)
