"""Role names for the declarations of a function, independent of the identifiers chosen in the source.

Cross-function comparisons (siblings, duals) need a common vocabulary for the two functions' parameters and locals. Using the
source identifiers makes a rule fire on a pure renaming; this module names declarations by *role* instead:

  anchors   : roles the rule derives from the code itself (e.g. the arguments of the one call both functions make)
  params    : $P<type>      (type without const/&/*, numbered when several parameters share it)
  locals    : single-definition locals are not named at all (callers inline them through `sub`); the others are
              $L<type>#k, k = order of declaration among the non-inlined locals of that type

The result is used as the `names` argument of tree.key().
"""
import re

from .algebra import LocalDefs


def norm_type(t):
    t = re.sub(r"\b(const|volatile|class|struct)\b", "", t or "")
    t = t.replace("&", "").replace("*", "")
    return re.sub(r"\s+", "", t)


def roles_for(fn, anchors=None, defs=None, inline=True):
    defs = defs or LocalDefs(fn)
    roles = dict(anchors or {})
    by_type = {}
    for p in fn.params:
        by_type.setdefault(norm_type(p.get("t")), []).append(p)
    for t, ps in by_type.items():
        for idx, p in enumerate(ps):
            if p["d"] in roles:
                continue
            roles[p["d"]] = "$P<%s>" % t if len(ps) == 1 else "$P<%s>#%d" % (t, idx)
    seen = {}
    for d, vd in sorted(defs.decl.items(), key=lambda kv: (kv[1].line, kv[0])):
        if d in roles:
            continue
        if inline and defs.single_def(d) is not None:
            continue
        t = norm_type(vd.get("t"))
        k = seen.get(t, 0)
        seen[t] = k + 1
        roles[d] = "$L<%s>#%d" % (t, k)
    return roles


def decl_of(n):
    """declaration id of a plain variable reference (through casts), else None"""
    n = n.strip()
    if n.k == "DeclRefExpr" and n.get("dk") in ("local", "param", "staticlocal", "binding"):
        return n.get("d")
    return None


def type_roles(fn, defs=None, anchors=None):
    """like roles_for, but locals that are not inlined are named by their type only ($<type>): robust against reordering and
    adding locals, at the price of not distinguishing two locals of one type"""
    defs = defs or LocalDefs(fn)
    roles = roles_for(fn, anchors, defs)
    out = {}
    for d, r in roles.items():
        if r.startswith("$L<"):
            out[d] = "$<" + r[3:].rsplit("#", 1)[0][:-1] + ">"
        else:
            out[d] = r
    return out
