"""Interval entailment over canonical keys: decide a >= b from must-facts, loop invariants and min/max/+k shapes."""
import re

from .cfg import _split_sexpr
from .tree import key, written_roots


def split_call(s):
    """'f(a,b)' -> ('f', ['a','b']) for top-level call keys, else None"""
    if not s.endswith(")") or s.startswith("("):
        return None
    depth = 0
    for idx, ch in enumerate(s):
        if ch in "([":
            if ch == "(" and depth == 0:
                name = s[:idx]
                body = s[idx + 1 : -1]
                # check that the matching paren is the last char
                d2 = 0
                for j, c2 in enumerate(s[idx:]):
                    if c2 in "([":
                        d2 += 1
                    elif c2 in ")]":
                        d2 -= 1
                        if d2 == 0:
                            if idx + j != len(s) - 1:
                                return None
                            break
                args, cur, d3 = [], "", 0
                for c3 in body:
                    if c3 in "([":
                        d3 += 1
                    elif c3 in ")]":
                        d3 -= 1
                    if c3 == "," and d3 == 0:
                        args.append(cur)
                        cur = ""
                    else:
                        cur += c3
                if cur:
                    args.append(cur)
                return name, args
            depth += 1
        elif ch in ")]":
            depth -= 1
    return None


def _lit(s):
    try:
        return float(s)
    except ValueError:
        return None


class Bounds:
    def __init__(self, rels, extra=()):
        self.rels = set(rels) | set(extra)
        self.by_a = {}
        for a, op, b in self.rels:
            self.by_a.setdefault(a, []).append((op, b))

    def add(self, a, op, b):
        from .cfg import FLIP

        for x, o, y in ((a, op, b), (b, FLIP[op], a)):
            self.rels.add((x, o, y))
            self.by_a.setdefault(x, []).append((o, y))

    def ge(self, a, b, depth=4, strict=False, _seen=None):
        """a >= b  (a > b when strict)"""
        if _seen is None:
            _seen = set()
        if (a, b, strict) in _seen or depth < 0:
            return False
        _seen = _seen | {(a, b, strict)}
        if a == b:
            return not strict
        la, lb = _lit(a), _lit(b)
        if la is not None and lb is not None:
            return la > lb if strict else la >= lb
        for op, c in self.by_a.get(a, []):
            if c == b and (op in (">",) or (not strict and op in (">=", "=="))):
                return True
        # integers: a + 1 > b  =>  a >= b ;  a > b - 1  =>  a >= b   (all keys compared here are integer typed indices)
        if not strict:
            for op, c in self.by_a.get("(+ %s 1)" % a, []):
                if c == b and op == ">":
                    return True
            for op, c in self.by_a.get(a, []):
                if op == ">" and c == "(- %s 1)" % b:
                    return True
        # structural shapes of a
        pa = _split_sexpr(a) if a.startswith("(") else None
        if pa and len(pa) == 3 and pa[0] in ("+", "-"):
            op, x, y = pa
            ky, kx = _lit(y), _lit(x)
            if op == "+" and ky is not None and ky >= 0 and self.ge(x, b, depth - 1, strict and ky == 0, _seen):
                return True
            if op == "+" and kx is not None and kx >= 0 and self.ge(y, b, depth - 1, strict and kx == 0, _seen):
                return True
            if op == "-" and ky is not None and ky <= 0 and self.ge(x, b, depth - 1, strict and ky == 0, _seen):
                return True
        pb = _split_sexpr(b) if b.startswith("(") else None
        if pb and len(pb) == 3 and pb[0] in ("+", "-"):
            op, x, y = pb
            ky, kx = _lit(y), _lit(x)
            if op == "-" and ky is not None and ky >= 0 and self.ge(a, x, depth - 1, strict and ky == 0, _seen):
                return True
            if op == "+" and ky is not None and ky <= 0 and self.ge(a, x, depth - 1, strict and ky == 0, _seen):
                return True
        ca = split_call(a)
        if ca and ca[0].endswith("max") and len(ca[1]) == 2:
            if any(self.ge(x, b, depth - 1, strict, _seen) for x in ca[1]):
                return True
        if ca and ca[0].endswith("min") and len(ca[1]) == 2:
            if all(self.ge(x, b, depth - 1, strict, _seen) for x in ca[1]):
                return True
        cb = split_call(b)
        if cb and cb[0].endswith("min") and len(cb[1]) == 2:
            if any(self.ge(a, x, depth - 1, strict, _seen) for x in cb[1]):
                return True
        if cb and cb[0].endswith("max") and len(cb[1]) == 2:
            if all(self.ge(a, x, depth - 1, strict, _seen) for x in cb[1]):
                return True
        # transitivity
        if depth > 0:
            for op, c in self.by_a.get(a, []):
                if op in (">=", ">", "=="):
                    if self.ge(c, b, depth - 1, strict and op != ">", _seen):
                        return True
        return False

    def le(self, a, b, depth=4, strict=False):
        return self.ge(b, a, depth, strict)


def loop_invariants(fn, n):
    """relations that hold for loop variables at node n because of the enclosing for-loops' shape:
    `for (T i = A; ...; ++i)` with no other write to i in the loop  =>  i >= A   (i-- : i <= A)."""
    out = []
    child = n
    for a in n.ancestors():
        if a.k == "ForStmt" and len(a.c) == 4 and a.c[3] is not None and _within(a.c[3], n) or (a.k == "ForStmt" and len(a.c) == 4 and _within(a.c[1], n)):
            init, cond, inc, body = a.c
            for vd in init.walk():
                if vd.k != "VarDecl" or not vd.c:
                    continue
                v = "v%d" % vd.get("d")
                # direction from the increment expression
                direction = None
                incs = [m for m in inc.walk() if v in written_roots(m)]
                if len(incs) == 1 and incs[0].k == "UnaryOperator" and incs[0].op in ("++", "--"):
                    direction = incs[0].op
                elif len(incs) == 1 and incs[0].k == "CompoundAssignOperator" and incs[0].op in ("+=", "-=") and _lit(key(incs[0].c[1])) is not None and _lit(key(incs[0].c[1])) > 0:
                    direction = "++" if incs[0].op == "+=" else "--"
                if direction is None:
                    continue
                if any(v in written_roots(m) for m in body.walk()) or any(v in written_roots(m) for m in cond.walk()):
                    continue
                out.append((v, ">=" if direction == "++" else "<=", key(vd.c[0])))
        child = a
    return out


def _within(anc, n):
    while n is not None:
        if n is anc:
            return True
        n = n.parent
    return False
