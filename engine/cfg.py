"""Control-flow utilities over the clang::CFG serialised by stirfacts.

* calls to the repo's never-returning reporters (stir::error, exit, abort, throw) end a path ("abort exit");
  only `return` / falling off the end reach the normal EXIT block.
* element-level dominance, must-pass-through, and a forward must-facts analysis that records which
  atomic branch conditions hold on every path to a program point.
"""
from .tree import key, roots, written_roots, written_lvalues

NORETURN = {"stir::error", "exit", "abort", "std::terminate", "std::exit", "std::abort", "__assert_fail"}


def is_noreturn_call(n):
    if n.k == "CXXThrowExpr":
        return True
    if n.is_call() and (n.callee in NORETURN or n.callee_info.get("noreturn")):
        return True
    return False


class Block:
    __slots__ = ("id", "elems", "succs", "preds", "cond", "term", "tk", "aborts")

    def __init__(self, bid):
        self.id = bid
        self.elems = []  # list of Node
        self.succs = []
        self.preds = []
        self.cond = None
        self.term = None
        self.tk = None
        self.aborts = False


class CFG:
    def __init__(self, fn):
        self.fn = fn
        raw = fn.cfg_raw
        if not raw:
            raise ValueError("no CFG for %s" % fn.qn)
        self.blocks = {}
        for b in raw["blocks"]:
            B = Block(b["id"])
            ids = []
            for e in b["e"]:
                if isinstance(e, dict):
                    e = e.get("init", -1)
                if e is None or e < 0:
                    continue
                ids.append(e)
            # wrappers share ids: keep the LAST occurrence (the outermost evaluation)
            seen = set()
            ordered = []
            for e in reversed(ids):
                if e in seen:
                    continue
                seen.add(e)
                ordered.append(e)
            ordered.reverse()
            for e in ordered:
                n = fn.nodes.get(e)
                if n is not None:
                    B.elems.append(n)
            B.succs = [s for s in b["s"]]
            B.cond = fn.nodes.get(b["cond"]) if "cond" in b else None
            B.term = fn.nodes.get(b["t"]) if "t" in b else None
            B.tk = b.get("tk")
            self.blocks[B.id] = B
        self.entry = raw["entry"]
        self.exit = raw["exit"]
        # cut at noreturn calls
        for B in self.blocks.values():
            for idx, n in enumerate(B.elems):
                if is_noreturn_call(n):
                    B.elems = B.elems[: idx + 1]
                    B.succs = []
                    B.aborts = True
                    B.cond = None
                    break
        self._unhoist_branches()
        for B in self.blocks.values():
            for s in B.succs:
                if s is not None and s in self.blocks:
                    self.blocks[s].preds.append(B.id)
        self._reach = self._reachable_from(self.entry)
        self.pos = {}
        for B in self.blocks.values():
            for idx, n in enumerate(B.elems):
                self.pos.setdefault(n.i, (B.id, idx))
        self._dom = None
        self._pdom = None

    def _unhoist_branches(self):
        """flow-graph side of engine/tree._unhoist_conditions: for `const bool h = a || b; if (h)` clang evaluates the short-circuit
        as a VALUE (blocks for a and b that meet in a join block, which then branches on h), so the graph has paths `a true -> join ->
        else-branch` that cannot happen.  The join block only declares h; its predecessors are re-wired as for `if (a || b)`: a
        short-circuit edge into the join has decided the value (true edge of ||: true, false edge of &&: false) and goes on to that
        successor, the block of the last operand branches on it."""
        for J in list(self.blocks.values()):
            if J.cond is None or not J.cond.d.get("unhoisted") or len(J.succs) != 2 or J.succs[0] == J.succs[1]:
                continue
            E = J.cond.strip()
            if not (E.k == "BinaryOperator" and E.op in ("&&", "||")):
                continue
            if any(n.is_call() or written_lvalues(n) for n in J.elems if n.k not in ("DeclStmt", "VarDecl")):
                continue
            preds = [P for P in self.blocks.values() if J.id in P.succs and P is not J]
            plan = []
            okay = bool(preds)
            for P in preds:
                if len(P.succs) == 2 and P.tk in ("BinaryOperator",) and P.succs[0] != P.succs[1]:
                    plan.append((P, "short"))
                elif len(P.succs) == 1 and P.elems and not P.aborts:
                    plan.append((P, "last"))
                else:
                    okay = False
            if not okay:
                continue
            for P, kind in plan:
                if kind == "short":
                    P.succs = [J.succs[i] if s == J.id else s for i, s in enumerate(P.succs)]
                else:
                    P.cond = P.elems[-1]
                    P.term = J.term
                    P.tk = J.tk
                    P.succs = list(J.succs)

    # -- basic graph things
    def _reachable_from(self, start):
        seen = {start}
        todo = [start]
        while todo:
            b = todo.pop()
            for s in self.blocks[b].succs:
                if s is not None and s not in seen:
                    seen.add(s)
                    todo.append(s)
        return seen

    def reachable_blocks(self):
        return self._reach

    def is_reachable(self, n):
        p = self.pos.get(n.i)
        return p is not None and p[0] in self._reach

    def _dominators(self, entry, succ_of, pred_of, nodes):
        dom = {b: set(nodes) for b in nodes}
        dom[entry] = {entry}
        changed = True
        order = list(nodes)
        while changed:
            changed = False
            for b in order:
                if b == entry:
                    continue
                ps = [p for p in pred_of(b) if p in dom]
                if not ps:
                    new = {b}
                else:
                    new = set.intersection(*(dom[p] for p in ps)) | {b}
                if new != dom[b]:
                    dom[b] = new
                    changed = True
        return dom

    def dom(self):
        if self._dom is None:
            nodes = [b for b in self.blocks if b in self._reach]
            self._dom = self._dominators(
                self.entry, lambda b: self.blocks[b].succs, lambda b: [p for p in self.blocks[b].preds if p in self._reach], nodes
            )
        return self._dom

    def dominates(self, a, b):
        """element a dominates element b (both Nodes present in the CFG)"""
        pa, pb = self.pos.get(a.i), self.pos.get(b.i)
        if pa is None or pb is None:
            return False
        if pa[0] == pb[0]:
            return pa[1] <= pb[1]
        d = self.dom()
        return pb[0] in d and pa[0] in d[pb[0]]

    # -- path queries
    def paths_avoiding(self, start_positions, stop_pred, target_pred=None, to_exit=True):
        """Is there a path from (just after) any start position to the normal EXIT (or to an element
        satisfying target_pred) that does not pass an element satisfying stop_pred?
        start_positions: list of (block, idx) meaning 'after element idx' (idx=-1: block start).
        Returns a witness list of block ids or None."""
        seen = set()
        todo = []
        for b, idx in start_positions:
            todo.append((b, idx + 1, (b,)))
        while todo:
            b, start, path = todo.pop()
            B = self.blocks[b]
            blocked = False
            for n in B.elems[start:]:
                if target_pred is not None and target_pred(n):
                    return list(path)
                if stop_pred(n):
                    blocked = True
                    break
            if blocked:
                continue
            if B.aborts:
                continue
            if b == self.exit and to_exit and target_pred is None:
                return list(path)
            for s in B.succs:
                if s is None:
                    continue
                if s == self.exit and to_exit and target_pred is None:
                    return list(path) + [s]
                if s in seen:
                    continue
                seen.add(s)
                todo.append((s, 0, path + (s,)))
        return None

    def must_pass_before_exit(self, after_nodes, through_pred):
        """On every path from each of after_nodes to the normal exit an element satisfying through_pred occurs.
        Returns None if it holds, else a witness path (block ids)."""
        starts = []
        for n in after_nodes:
            p = self.pos.get(n.i)
            if p is None:
                continue
            starts.append(p)
        return self.paths_avoiding(starts, through_pred)

    def must_pass_from_entry(self, target_nodes, through_pred):
        """Every path from entry to any of target_nodes passes an element satisfying through_pred first."""
        ids = {n.i for n in target_nodes}
        return self.paths_avoiding([(self.entry, -1)], through_pred, target_pred=lambda n: n.i in ids, to_exit=False)

    # -- must-facts
    def must_facts(self):
        """dict block id -> frozenset of (key, bool, roots frozenset) holding at block entry on all paths,
        plus helper to get facts at an element."""
        if getattr(self, "_facts", None) is not None:
            return self._facts
        TOP = None
        IN = {b: TOP for b in self.blocks}
        IN[self.entry] = frozenset()
        order = sorted(self._reach, reverse=True)  # clang numbers entry highest
        changed = True
        guard = 0
        while changed and guard < 200:
            guard += 1
            changed = False
            for b in order:
                if b == self.entry:
                    newin = frozenset()
                else:
                    acc = TOP
                    for p in self.blocks[b].preds:
                        if p not in self._reach or IN[p] is TOP and p != self.entry:
                            continue
                        outs = self._edge_facts(p, b, IN[p])
                        acc = outs if acc is TOP else (acc & outs)
                    newin = acc
                if newin != IN[b]:
                    IN[b] = newin
                    changed = True
        self._facts = {b: (v if v is not None else frozenset()) for b, v in IN.items()}
        return self._facts

    def _transfer(self, facts, elems):
        cur = set(facts)
        for n in elems:
            w = written_roots(n)
            if w and n.is_call() and n.callee in REFINED_KILLS:
                # the callee's body was analysed: it only changes the listed aspects of its by-reference argument
                idx, aspects = REFINED_KILLS[n.callee]
                args = n.call_args()
                if idx < len(args):
                    from .tree import root_of_lvalue

                    r = root_of_lvalue(args[idx])
                    cur = {f for f in cur if not (r in f[2] and any(a in f[0] for a in aspects))}
                    w = w - {r}
            if w:
                if "?" in w:
                    cur = set()
                else:
                    this_call = "this()" in w
                    cur = {f for f in cur if not (f[2] & w) and not (this_call and any(r.startswith("this") for r in f[2]))}
            for summ in POST_FACTS:
                for f in summ(n):
                    cur.add(f)
        return cur

    def _edge_facts(self, p, b, inp):
        P = self.blocks[p]
        cur = self._transfer(inp, P.elems)
        if P.cond is not None and len(P.succs) == 2 and P.tk != "SwitchStmt" and P.succs[0] != P.succs[1]:
            truth = None
            if P.succs[0] == b:
                truth = True
            elif P.succs[1] == b:
                truth = False
            if truth is not None:
                for at, tv in atoms(P.cond, truth):
                    cur.add((key(at), tv, frozenset(roots(at))))
        return frozenset(cur)

    def facts_at(self, n):
        """facts that hold on every path just before element n is evaluated"""
        p = self.pos.get(n.i)
        if p is None:
            return frozenset()
        B = self.blocks[p[0]]
        return frozenset(self._transfer(self.must_facts()[p[0]], B.elems[: p[1]]))

    def facts_at_block_end(self, b):
        B = self.blocks[b]
        return frozenset(self._transfer(self.must_facts()[b], B.elems))

    def return_nodes(self):
        return [n for B in self.blocks.values() if B.id in self._reach for n in B.elems if n.k == "ReturnStmt"]

    def normal_exit_preds(self):
        return [p for p in self.blocks[self.exit].preds if p in self._reach]


# post-condition summaries: callables node -> iterable of facts (key, truth, roots) that hold right after the
# element was evaluated.  Registered by rule modules (slots filled from the repo's API documentation).
POST_FACTS = []
# callee qn -> (index of the by-reference argument, substrings of fact keys it can invalidate); filled by rule modules from
# an analysis of the callee's body in the current source
REFINED_KILLS = {}


def atoms(cond, truth):
    """Decompose a branch condition with known truth value into atomic facts.
    `!x` flips; `a && b` true gives both; `a || b` false gives both negated."""
    cond = cond.strip()
    if cond.k == "UnaryOperator" and cond.op == "!":
        return atoms(cond.c[0], not truth)
    if cond.k == "CXXOperatorCallExpr" and cond.op == "!" and len(cond.c) == 1 and cond.type == "bool" and cond.c[0].type == "bool":
        return atoms(cond.c[0], not truth)
    if cond.k == "BinaryOperator" and cond.op == "&&" and truth:
        return atoms(cond.c[0], True) + atoms(cond.c[1], True)
    if cond.k == "BinaryOperator" and cond.op == "||" and not truth:
        return atoms(cond.c[0], False) + atoms(cond.c[1], False)
    return [(cond, truth)]


NEG = {"<": ">=", "<=": ">", ">": "<=", ">=": "<", "==": "!=", "!=": "=="}
FLIP = {"<": ">", "<=": ">=", ">": "<", ">=": "<=", "==": "==", "!=": "!="}


def relations(facts):
    """normalise comparison facts into a set of (lhs_key, rel, rhs_key), both orientations"""
    out = set()
    for f in facts:
        k, tv = f[0], f[1]
        if not k.startswith("("):
            continue
        parts = _split_sexpr(k)
        if parts is None or len(parts) != 3 or parts[0] not in NEG:
            continue
        op, a, b = parts
        if not tv:
            op = NEG[op]
        out.add((a, op, b))
        out.add((b, FLIP[op], a))
    return out


def _split_sexpr(s):
    if not (s.startswith("(") and s.endswith(")")):
        return None
    body = s[1:-1]
    parts, depth, cur = [], 0, ""
    for ch in body:
        if ch in "([":
            depth += 1
        elif ch in ")]":
            depth -= 1
        if ch == " " and depth == 0:
            if cur:
                parts.append(cur)
            cur = ""
        else:
            cur += ch
    if cur:
        parts.append(cur)
    return parts
