"""Obligation bookkeeping, known findings, evidence and exit codes (DESIGN.md 2.4)."""
import json
import os
import time

HERE = os.path.dirname(os.path.dirname(os.path.abspath(__file__)))
KNOWN = os.path.join(HERE, "known_findings.json")


class Broken(Exception):
    """analysis cannot decide (exit 2) - never a pass, never a violation"""


class Context:
    def __init__(self, prop, tier, extractor, seed=0):
        self.prop = prop
        self.tier = tier
        self.ex = extractor
        self.seed = seed
        self.obligations = []  # dicts
        self.controls = []  # positive controls (must fail)
        self.broken = []
        self.notes = []
        self.unrecognised = []
        self.t0 = time.time()
        self.explanation = ""
        self.assumptions = []
        self.trusted = [
            "clang 14 front end (parse, name/overload resolution, CFG construction)",
            "tools/stirfacts extractor and the Python analyses in /verif/engine",
            "the frozen instance tables in the rule module",
        ]
        self.stats = {}

    # ------------------------------------------------------------------ obligations
    def ob(self, rule, function, construct, ok, where="", detail="", facts=None, control=False):
        """record one rule instance. fingerprint = rule|function|construct (never a line number)"""
        rec = {
            "rule": rule,
            "function": function,
            "construct": construct,
            "ok": bool(ok),
            "where": where,
            "detail": detail,
        }
        if facts is not None:
            rec["facts"] = facts
        (self.controls if control else self.obligations).append(rec)
        return bool(ok)

    def fail_broken(self, msg):
        self.broken.append(msg)

    def unrec(self, function, why):
        self.unrecognised.append("%s: %s" % (function, why))

    def note(self, msg):
        self.notes.append(msg)

    def require_count(self, rule, minimum):
        n = sum(1 for o in self.obligations if o["rule"] == rule)
        if n < minimum:
            self.fail_broken("rule %s matched %d instances, fewer than the %d confirmed by hand" % (rule, n, minimum))

    def count(self, rule):
        return sum(1 for o in self.obligations if o["rule"] == rule)

    # ------------------------------------------------------------------ finish
    def finish(self):
        known = []
        if os.path.exists(KNOWN):
            with open(KNOWN) as f:
                known = json.load(f).get("findings", [])
        known_keys = {}
        for k in known:
            if k.get("property") == self.prop and k.get("status") == "known":
                known_keys[(k["rule"], k["function"], k["construct"])] = k
        for f in self.ex.failures:
            self.broken.append("unit did not parse: %s [%s]: %s" % f)
        for c in self.controls:
            if c["ok"]:
                self.broken.append("positive control did not fire: %s %s %s" % (c["rule"], c["function"], c["construct"]))
        for u in self.unrecognised:
            self.broken.append("UNRECOGNISED " + u)
        violations = []
        known_hit = []
        for o in self.obligations:
            if o["ok"]:
                continue
            fp = (o["rule"], o["function"], o["construct"])
            if fp in known_keys:
                known_hit.append((o, known_keys[fp]))
            else:
                violations.append(o)
        wall = time.time() - self.t0
        os.makedirs(os.path.join(HERE, "evidence", "reports"), exist_ok=True)
        # evidence
        distinct = {(o["rule"], o["function"], o["construct"]) for o in self.obligations}
        samples = []
        per_rule = {}
        for o in self.obligations:
            per_rule.setdefault(o["rule"], []).append(o)
        for r, lst in sorted(per_rule.items()):
            for o in lst[:2]:
                samples.append({k: o[k] for k in ("rule", "function", "construct", "ok", "where", "detail") if k in o})
        ev = {
            "property_id": self.prop,
            "tier": self.tier,
            "seed": self.seed,
            "level": "other",
            "coverage": {
                "explanation": self.explanation,
                "obligations": len(self.obligations),
                "discharged": sum(1 for o in self.obligations if o["ok"]),
                "evaluations": len(self.obligations),
                "distinct_nontrivial": len(distinct),
                "rule": "one obligation per (rule, function, construct) instance found in the current source; "
                "distinct = distinct fingerprints; every instance is non-trivial (it names a concrete construct)",
                "obligations_per_rule": {r: len(v) for r, v in sorted(per_rule.items())},
                "positive_controls_fired": sum(1 for c in self.controls if not c["ok"]),
                "positive_controls": len(self.controls),
                "samples": samples,
                "units_analysed": sorted({c.split(" ")[-1] for c in self.ex.commands}),
                "checker_cmd": "./check %s --tier %s" % (self.prop, self.tier),
                "trusted_base": self.trusted,
                "known_findings_reported": [
                    {"rule": o["rule"], "function": o["function"], "construct": o["construct"]} for o, _ in known_hit
                ],
                "notes": self.notes,
                "analysis_broken": self.broken,
                "stats": self.stats,
                "exhaustive": False,
            },
            "assumptions": self.assumptions,
            "wall_s": round(wall, 2),
            "violations": len(violations),
        }
        evdir = os.path.join(HERE, "evidence")
        if getattr(self, "overlay", None):
            evdir = os.path.join(HERE, "evidence", "selftest")  # self-test runs never overwrite the registered evidence
            os.makedirs(evdir, exist_ok=True)
        with open(os.path.join(evdir, self.prop + ".json"), "w") as f:
            json.dump(ev, f, indent=1)
        # output
        if os.environ.get("VERIF_LIST"):
            for o in self.obligations:
                if os.environ["VERIF_LIST"] in ("1", "") or os.environ["VERIF_LIST"] in o["rule"]:
                    print("OB %s [%s] %s %s @%s: %s" % ("ok " if o["ok"] else "BAD", o["rule"], o["function"], o["construct"], o["where"], o["detail"][:300]))
        for o, k in known_hit:
            print("KNOWN-FINDING: property=%s %s %s [%s] at %s: %s" % (self.prop, o["function"], o["construct"], o["rule"], o["where"], k.get("description", o["detail"])))
        if self.broken:
            for b in self.broken:
                print("ANALYSIS-BROKEN property=%s %s" % (self.prop, b))
        code = 0
        for idx, o in enumerate(violations):
            path = os.path.join(HERE, "evidence", "reports", "%s%s-%d.json" % ("selftest-" if getattr(self, "overlay", None) else "", self.prop, idx))
            rep = dict(o)
            rep["property"] = self.prop
            rep["replay"] = "./check %s --replay %s" % (self.prop, path)
            with open(path, "w") as f:
                json.dump(rep, f, indent=1)
            print("  %s: [%s] %s %s: %s" % (o["where"], o["rule"], o["function"], o["construct"], o["detail"]))
            print("VIOLATION property=%s replay=%s" % (self.prop, path))
            code = 1
        if self.broken and code == 0:
            code = 2
        print(
            "%s %s: %d obligations, %d discharged, %d known findings, %d violations, %d controls fired/%d, %.1fs"
            % (
                self.prop,
                self.tier,
                len(self.obligations),
                sum(1 for o in self.obligations if o["ok"]),
                len(known_hit),
                len(violations),
                sum(1 for c in self.controls if not c["ok"]),
                len(self.controls),
                wall,
            )
        )
        return code, violations
