"""Normalised descriptors of counting for-loops: (variable, init key, inclusive upper bound key, step key)."""
from .tree import key


def describe(lp, names=True):
    """for (T v = A; v <= B; v += S)  ->  dict(var, d, init, upper (inclusive), step) or None if not a counting loop.
    Accepts v < B+1 / B >= v / ++v / v++ / v = v + S / v += S."""
    if lp.k != "ForStmt" or len(lp.c) != 4:
        return None
    init, cond, inc = lp.c[0], lp.c[1], lp.c[2]
    vd = [m for m in init.walk() if m.k == "VarDecl" and m.c]
    if len(vd) != 1:
        return None
    v = vd[0]
    if isinstance(names, dict):
        vk = names.get(v.get("d")) or "v%d" % v.get("d")
    else:
        vk = v.get("n") if names else "v%d" % v.get("d")
    c = cond.strip()
    upper = None
    if c.k == "BinaryOperator" and len(c.c) == 2:
        a, b = key(c.c[0].strip(), names), key(c.c[1].strip(), names)
        if c.op == "<=" and a == vk:
            upper = b
        elif c.op == ">=" and b == vk:
            upper = a
        elif c.op == "<" and a == vk:
            upper = "(- %s 1)" % b
            if b.startswith("(+ ") and b.endswith(" 1)"):
                upper = b[3:-3]
        elif c.op == ">" and b == vk:
            upper = "(- %s 1)" % a
    step = None
    i = inc.strip()
    if i.k == "UnaryOperator" and i.op == "++" and key(i.c[0].strip(), names) == vk:
        step = "1"
    elif i.k == "CompoundAssignOperator" and i.op == "+=" and key(i.c[0].strip(), names) == vk:
        step = key(i.c[1].strip(), names)
    elif i.k == "BinaryOperator" and i.op == "=" and key(i.c[0].strip(), names) == vk:
        r = i.c[1].strip()
        if r.k == "BinaryOperator" and r.op == "+":
            x, y = key(r.c[0].strip(), names), key(r.c[1].strip(), names)
            if x == vk:
                step = y
            elif y == vk:
                step = x
    if upper is None or step is None:
        return None
    return {"var": vk, "d": v.get("d"), "init": key(v.c[0].strip(), names), "upper": upper, "step": step, "node": lp}


def bounds(lp, sub=None):
    """inclusive bounds of a counting for-loop as keys with single-definition locals inlined (sub): dict(d, init, upper, step) or None.
    `v <= B`, `B >= v`, `v < B + 1`, `v < B` (-> B - 1) are all understood - rules must take the upper bound from here, never from the
    shape of the condition."""
    d = describe(lp, names=False)
    if d is None:
        return None
    init, cond = lp.c[0], lp.c[1].strip()
    vd = [m for m in init.walk() if m.k == "VarDecl" and m.c][0]
    out = {"d": d["d"], "step": d["step"], "node": lp, "init": key(vd.c[0].strip(), False, sub)}
    vk = "v%d" % d["d"]
    a, b = cond.c[0].strip(), cond.c[1].strip()
    if cond.op in ("<=", "<") and key(a) == vk:
        other = b
    elif cond.op in (">=", ">") and key(b) == vk:
        other = a
    else:
        return None
    ok_ = key(other, False, sub)
    if cond.op in ("<=", ">="):
        out["upper"] = ok_
    else:
        o = other
        if o.k == "BinaryOperator" and o.op == "+" and key(o.c[1].strip()) == "1":
            out["upper"] = key(o.c[0].strip(), False, sub)
        elif o.k == "BinaryOperator" and o.op == "+" and key(o.c[0].strip()) == "1":
            out["upper"] = key(o.c[1].strip(), False, sub)
        elif ok_.startswith("(+ ") and ok_.endswith(" 1)"):
            out["upper"] = ok_[3:-3]
        else:
            out["upper"] = "(- %s 1)" % ok_
    return out


def v_ref(v):
    return v


def name_induction_variables(fn, roles):
    """give every counting-loop variable the role name $for<init..upper;step> (outer loops first), so that loops of two functions
    can be compared without reference to the identifiers chosen for the loop variables"""
    for lp in fn.walk():
        if lp.k != "ForStmt":
            continue
        d = describe(lp, names=roles)
        if d:
            roles[d["d"]] = "$for<%s..%s;%s>" % (d["init"], d["upper"], d["step"])
    return roles


def lockstep(cfg, loop):
    """Element-wise loops walk several iterators together.  For a while/for loop whose body increments iterator locals, returns a
    list of problems (empty = every iterator is advanced exactly once per iteration on every path through the body).
    A `continue` that skips one increment, or an increment inside a branch, desynchronises the operands for the rest of the image."""
    from .tree import key

    body = loop.c[-1]
    incs = {}
    nodes = list(body.walk())
    if loop.k == "ForStmt" and len(loop.c) == 4:
        nodes += list(loop.c[2].walk())
    INT = ("int", "unsigned int", "long", "unsigned long", "short", "char", "std::size_t", "size_t", "long long", "unsigned long long")
    for m in nodes:
        if m.k in ("UnaryOperator", "CXXOperatorCallExpr") and m.op == "++" and m.c and m.c[0].strip().k == "DeclRefExpr" and m.i in cfg.pos:
            v = m.c[0].strip()
            if (v.type or "").replace("const ", "").strip() in INT:
                continue  # a counter, not an iterator over data
            nearest = None
            for a in m.ancestors():
                if a.k in ("WhileStmt", "ForStmt", "DoStmt", "CXXForRangeStmt"):
                    nearest = a
                    break
            if nearest is not loop:
                continue  # belongs to a nested loop
            incs.setdefault(key(v), []).append(m)
    problems = []
    cond = loop.c[1] if loop.k == "ForStmt" else loop.c[0]
    cond_ids = {x.i for x in cond.walk()}
    if len(incs) < 2:
        return problems, incs
    # start right after the loop test has been evaluated (its top-level node is evaluated last); the way out of the loop never
    # comes back to the test, so only trips through the body are examined
    top = cond.strip()
    cand = [x for x in [top] + list(top.walk()) if x.i in cfg.pos]
    if not cand:
        return problems, incs
    last = max(cand, key=lambda x: (cfg.pos[x.i][0] == cfg.pos[cand[0].i][0], cfg.pos[x.i][1]))
    start = [cfg.pos[cand[0].i]] if cand[0] is top else [cfg.pos[last.i]]
    cond_ids = {top.i} if top.i in cfg.pos else cond_ids
    inside = {x.i for x in body.walk()} | {x.i for x in cond.walk()}
    if loop.k == "ForStmt" and len(loop.c) == 4:
        inside |= {x.i for x in loop.c[2].walk()}
    for it, lst in incs.items():
        ids = {x.i for x in lst}
        # (a) no way round: from the start of the body back to the loop test without an increment of `it` (paths that leave the
        # loop are not trips through the body)
        w = cfg.paths_avoiding(start, lambda x, ids=ids: x.i in ids or x.i not in inside, target_pred=lambda x: x.i in cond_ids, to_exit=False)
        if w is not None:
            problems.append("a path through the loop body does not advance %s" % it)
        # (b) not twice: from an increment to another increment of the same iterator without passing the loop test
        for x in lst:
            w2 = cfg.paths_avoiding([cfg.pos[x.i]], lambda y: y.i in cond_ids or y.i not in inside, target_pred=lambda y, ids=ids: y.i in ids, to_exit=False)
            if w2 is not None:
                problems.append("%s can be advanced twice in one iteration" % it)
                break
    return problems, incs


def lockstep_sweep(ctx, rule, fns, min_iters=2):
    """one obligation per loop (in the given functions) that walks several iterators together: see lockstep()"""
    from .cfg import CFG

    n = 0
    seen = set()
    for f in fns:
        if f.body is None or not f.cfg_raw or (f.file, f.line) in seen:
            continue
        seen.add((f.file, f.line))
        cfg = None
        k = 0
        for lp in f.walk():
            if lp.k not in ("WhileStmt", "ForStmt"):
                continue
            if cfg is None:
                cfg = CFG(f)
            problems, incs = lockstep(cfg, lp)
            if len(incs) < min_iters:
                continue
            ctx.ob(rule, f.qn + "(" + f.sig[:30] + ")", "lockstep@%d" % k, not problems, "%s:%d" % (f.file, lp.line), "%d iterators advance exactly once per iteration on every path" % len(incs) if not problems else "; ".join(problems))
            k += 1
            n += 1
    return n
