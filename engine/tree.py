"""Typed AST as produced by tools/stirfacts, with helpers used by all rules."""

import re as _re

TRANSPARENT = {"Cast"}
_ARITH = _re.compile(r"^(const )?(unsigned |signed )?(int|long|long long|short|char|float|double|long double|std::size_t|size_t|unsigned|std::streamsize)( &)?$")


_FLIP_CMP = {"==": "==", "!=": "!=", "<": ">", ">": "<", "<=": ">=", ">=": "<="}


def _is_literal(n):
    while n is not None and n.k in ("Cast", "ParenExpr") and n.c:
        n = n.c[-1]
    if n is not None and n.k == "UnaryOperator" and n.d.get("op") in ("-", "+") and n.c:
        return _is_literal(n.c[0])
    return n is not None and n.k in ("IntegerLiteral", "FloatingLiteral", "CXXBoolLiteralExpr", "CharacterLiteral")


class Node:
    __slots__ = ("d", "c", "parent", "fn")

    def __init__(self, d, parent=None, fn=None):
        self.d = d
        self.parent = parent
        self.fn = fn
        self.c = [Node(x, self, fn) for x in d.get("c", []) if x is not None]
        for extra in ("init", "condvar"):
            if extra in d and isinstance(d[extra], dict):
                self.c.insert(0, Node(d[extra], self, fn))
        # canonical form: the literal of a comparison stands on the right (`0 == x` is `x == 0`, `0 < x` is `x > 0`)
        if d.get("k") == "BinaryOperator" and d.get("op") in _FLIP_CMP and len(self.c) == 2 and _is_literal(self.c[0]) and not _is_literal(self.c[1]):
            self.d = d = dict(d, op=_FLIP_CMP[d.get("op")])
            self.c = [self.c[1], self.c[0]]
        # canonical form: `x = x op E` (x a variable or member of builtin arithmetic type, op in + - *; also `x = E op x` for + and *)
        # is the compound assignment `x op= E` - rules see one spelling only
        if d.get("k") == "BinaryOperator" and d.get("op") == "=" and len(self.c) == 2:
            lhs = self.c[0]
            rhs = self.c[1].strip()
            if lhs.k in ("DeclRefExpr", "MemberExpr") and _ARITH.match(lhs.type or "") and rhs.k == "BinaryOperator" and rhs.op in ("+", "-", "*") and len(rhs.c) == 2:
                kl = key(lhs)
                other = None
                if key(rhs.c[0].strip()) == kl:
                    other = rhs.c[1]
                elif rhs.op in ("+", "*") and key(rhs.c[1].strip()) == kl:
                    other = rhs.c[0]
                if other is not None and kl not in key(other):
                    self.d = dict(d, k="CompoundAssignOperator", op=rhs.op + "=")
                    other.parent = self
                    self.c = [lhs, other]

    # -- attribute sugar
    @property
    def k(self):
        return self.d.get("k")

    @property
    def i(self):
        return self.d.get("i")

    @property
    def line(self):
        return self.d.get("l", 0)

    @property
    def type(self):
        return self.d.get("t", "")

    @property
    def op(self):
        return self.d.get("op")

    @property
    def name(self):
        return self.d.get("n")

    def get(self, k, default=None):
        return self.d.get(k, default)

    @property
    def callee(self):
        f = self.d.get("fn")
        return f["qn"] if f else None

    @property
    def callee_info(self):
        return self.d.get("fn") or {}

    def walk(self):
        yield self
        for c in self.c:
            yield from c.walk()

    def find(self, pred):
        return [n for n in self.walk() if pred(n)]

    def ancestors(self):
        p = self.parent
        while p is not None:
            yield p
            p = p.parent

    def is_call(self):
        return self.k in ("CallExpr", "CXXMemberCallExpr", "CXXOperatorCallExpr", "CXXConstructExpr", "CXXTemporaryObjectExpr")

    def calls(self, qn=None, suffix=None):
        out = []
        for n in self.walk():
            if n.is_call() and n.callee:
                if qn is not None and n.callee != qn:
                    continue
                if suffix is not None and not n.callee.endswith(suffix):
                    continue
                out.append(n)
        return out

    # object and arguments of a call, uniformly
    def call_object(self):
        if self.k == "CXXMemberCallExpr":
            return self.c[0] if self.c else None
        if self.k == "CXXOperatorCallExpr" and self.callee_info.get("cls"):
            return self.c[0] if self.c else None
        return None

    def call_args(self):
        if self.k == "CXXMemberCallExpr":
            return self.c[1:]
        if self.k == "CXXOperatorCallExpr" and self.callee_info.get("cls"):
            return self.c[1:]
        if self.k == "CallExpr" and self.d.get("indirect"):
            return self.c[1:]
        return self.c

    def strip(self):
        """look through explicit casts and trivial copy constructions"""
        n = self
        while True:
            if n.k == "Cast" and n.c:
                n = n.c[-1]
            elif n.k == "CXXConstructExpr" and len(n.c) == 1 and n.get("elidable"):
                n = n.c[0]
            else:
                return n

    def where(self):
        f = self.fn
        return "%s:%d" % (f.file if f else "?", self.line)

    def __repr__(self):
        return "<%s #%s l%s %s>" % (self.k, self.i, self.line, key(self))


class Function:
    def __init__(self, d, unit=None):
        self.d = d
        self.unit = unit
        self.qn = d["qn"]
        self.qnt = d.get("qnt", self.qn)
        self.sig = d.get("sig", "")
        self.file = d.get("file", "")
        self.line = d.get("line", 0)
        self.endline = d.get("endline", 0)
        self.cls = d.get("cls")
        self.params = d.get("params", [])
        self.is_inst = bool(d.get("inst"))
        self.is_dependent = bool(d.get("dependent"))
        self.is_const = bool(d.get("const"))
        self.is_ctor = bool(d.get("ctor"))
        self.body = Node(d["body"], None, self) if d.get("body") else None
        self.inits = []
        for it in d.get("inits", []):
            self.inits.append((it, Node(it["e"], None, self) if it.get("e") else None))
        self.nodes = {}
        aliases = _unhoist_conditions(self.body) if self.body is not None else {}
        if self.body is not None:
            for n in self.body.walk():
                if n.i is not None:
                    self.nodes.setdefault(n.i, n)
        for i_, n in aliases.items():
            self.nodes.setdefault(i_, n)
        for _it, n in self.inits:
            if n is not None:
                for m in n.walk():
                    if m.i is not None:
                        self.nodes.setdefault(m.i, m)
        self.cfg_raw = d.get("cfg")

    @property
    def short(self):
        return self.qn.split("::")[-1]

    def where(self):
        return "%s:%d" % (self.file, self.line)

    def param_by_root(self, root):
        for p in self.params:
            if "v%d" % p["d"] == root:
                return p
        return None

    def param(self, name):
        for p in self.params:
            if p["n"] == name:
                return p
        return None

    def walk(self):
        if self.body is not None:
            yield from self.body.walk()
        for _it, n in self.inits:
            if n is not None:
                yield from n.walk()

    def calls(self, qn=None, suffix=None):
        out = []
        for n in self.walk():
            if n.is_call() and n.callee:
                if qn is not None and n.callee != qn:
                    continue
                if suffix is not None and not n.callee.endswith(suffix):
                    continue
                out.append(n)
        return out

    def find(self, pred):
        return [n for n in self.walk() if pred(n)]

    def __repr__(self):
        return "<Function %s(%s) %s:%d>" % (self.qnt, self.sig, self.file, self.line)


# ---------------------------------------------------------------------------------------------------------
def _unhoist_conditions(body):
    """canonical form: `const bool h = C; if (h) ...` with h used nowhere else is `if (C) ...` - the condition stands where it is
    tested (rules read IfStmt conditions, and branch facts are taken from them).  Only for a declaration that is the statement
    immediately before the if in the same block, so nothing can change an operand of C in between.  Returns {id of the replaced
    reference: node that stands there now} for the flow graph's condition look-up."""
    aliases = {}
    if body is None:
        return aliases
    refs = {}
    for n in body.walk():
        if n.d.get("k") == "DeclRefExpr" and n.d.get("dk") == "local":
            refs.setdefault(n.d.get("d"), []).append(n)
    for blk in list(body.walk()):
        if blk.d.get("k") != "CompoundStmt":
            continue
        for a, b in zip(blk.c, blk.c[1:]):
            if a.d.get("k") != "DeclStmt" or len(a.c) != 1 or b.d.get("k") != "IfStmt" or not b.c:
                continue
            v = a.c[0]
            if v.d.get("k") != "VarDecl" or len(v.c) != 1 or (v.d.get("t") or "").replace("const ", "").strip() != "bool":
                continue
            rs = refs.get(v.d.get("d"), [])
            if len(rs) != 1:
                continue
            r = rs[0]
            # the reference is inside the condition of the if
            x, inside = r, False
            while x is not None:
                if x is b.c[0]:
                    inside = True
                    break
                if x is b:
                    break
                x = x.parent
            if not inside or r.parent is None:
                continue
            init = v.c[0]
            init.d = dict(init.d, unhoisted=1)
            par = r.parent
            par.c = [init if y is r else y for y in par.c]
            init.parent = par
            v.c = []
            if r.d.get("i") is not None:
                aliases[r.d.get("i")] = init
    return aliases


# canonical keys


def key(n, names=False, subst=None):
    """Canonical s-expression of an expression; semantic (resolved decls), position independent.
    names=True: locals/params by name (for cross-function comparison), else by declaration id."""
    if n is None:
        return "?"
    k = n.k
    d = n.d
    if k == "Cast":
        return key(n.c[-1], names, subst) if n.c else "?"
    if k == "DeclRefExpr":
        dk = d.get("dk")
        if dk in ("local", "param", "staticlocal", "binding"):
            if subst is not None and d.get("d") in subst and subst[d.get("d")] is not None:
                return key(subst[d.get("d")], names, subst)
            if names == "type":
                return ("$" + d.get("n")) if dk == "param" else "$<%s>" % (d.get("t") or "?").replace("const ", "")
            if isinstance(names, dict):  # role table: declaration id -> role name (engine/canon.py); never the source name
                return names.get(d.get("d")) or "v%d" % d.get("d")
            return (d.get("n") if names else "v%d" % d.get("d")) or "?"
        if dk == "enumconst":
            return d.get("qn")
        if dk == "function":
            return "&" + d["fn"]["qn"]
        return d.get("qn") or d.get("n") or "?"
    if k == "MemberExpr":
        base = n.c[0] if n.c else None
        if base is not None and base.k == "CXXThisExpr":
            return "this." + d.get("n")
        return key(base, names, subst) + "." + d.get("n")
    if k == "CXXThisExpr":
        return "this"
    if k in ("IntegerLiteral", "FloatingLiteral", "CXXBoolLiteralExpr", "CharacterLiteral"):
        v = d.get("v")
        if isinstance(v, bool):
            return "true" if v else "false"
        if isinstance(v, float) and v == int(v):
            return str(int(v)) + ".0"
        return str(v)
    if k == "StringLiteral":
        return '"%s"' % d.get("v", "")
    if k in ("BinaryOperator", "CompoundAssignOperator"):
        op = d.get("op")
        if op in _FLIP_CMP and len(n.c) == 2 and _is_literal(n.c[0]) and not _is_literal(n.c[1]):
            # canonical form: the literal of a comparison on the right (`0 == x` is `x == 0`, `0 < x` is `x > 0`)
            return "(%s %s %s)" % (_FLIP_CMP[op], key(n.c[1], names, subst), key(n.c[0], names, subst))
        return "(%s %s %s)" % (op, key(n.c[0], names, subst), key(n.c[1], names, subst))
    if k == "UnaryOperator":
        return "(%s%s %s)" % (d.get("op"), "post" if d.get("postfix") else "", key(n.c[0], names, subst))
    if k == "ConditionalOperator":
        return "(?: %s %s %s)" % tuple(key(c, names, subst) for c in n.c[:3])
    if k == "ArraySubscriptExpr":
        return "%s[%s]" % (key(n.c[0], names, subst), key(n.c[1], names, subst))
    if k == "CXXOperatorCallExpr":
        op = d.get("op")
        if op == "[]" and len(n.c) == 2:
            return "%s[%s]" % (key(n.c[0], names, subst), key(n.c[1], names, subst))
        if op in ("*", "->") and len(n.c) == 1:
            return "*" + key(n.c[0], names, subst)
        return "(%s %s)" % (op, " ".join(key(c, names, subst) for c in n.c))
    if k == "CXXMemberCallExpr":
        obj = n.c[0] if n.c else None
        fn = (d.get("fn") or {}).get("qn", "?").split("::")[-1]
        o = key(obj, names, subst)
        return "%s.%s(%s)" % (o, fn, ",".join(key(c, names, subst) for c in n.c[1:]))
    if k == "CallExpr":
        fn = (d.get("fn") or {}).get("qn")
        if fn is None:
            return "call(%s)" % ",".join(key(c, names, subst) for c in n.c)
        return "%s(%s)" % (fn, ",".join(key(c, names, subst) for c in n.c))
    if k in ("CXXConstructExpr", "CXXTemporaryObjectExpr"):
        if len(n.c) == 1 and d.get("elidable"):
            return key(n.c[0], names, subst)
        fn = (d.get("fn") or {}).get("qn", "?")
        # copy/move construction is value preserving
        if len(n.c) == 1 and fn.split("::")[-1] == fn.split("::")[-2] if fn.count("::") else False:
            sig = (d.get("fn") or {}).get("sig", "")
            cls = fn.split("::")[-1]
            if cls in sig and "," not in sig:
                return key(n.c[0], names, subst)
        return "%s(%s)" % (fn, ",".join(key(c, names, subst) for c in n.c))
    if k == "CXXDependentScopeMemberExpr":
        return (key(n.c[0], names, subst) if n.c else "this") + "." + (d.get("n") or "?")
    if k in ("UnresolvedLookupExpr", "DependentScopeDeclRefExpr", "UnresolvedMemberExpr"):
        return "~" + (d.get("n") or "?")
    if k == "VarDecl":
        if isinstance(names, dict):
            return "decl(%s)" % (names.get(d.get("d")) or "v%d" % d.get("d"))
        return "decl(%s)" % (d.get("n") if names else "v%d" % d.get("d"))
    return "%s(%s)" % (k, ",".join(key(c, names, subst) for c in n.c))


def roots(n):
    """set of storage roots an expression mentions: 'v<id>' for locals/params, 'this.<f>' for own fields,
    'this' if a member function is called on this (may read anything)."""
    out = set()
    for m in n.walk():
        if m.k == "DeclRefExpr" and m.get("dk") in ("local", "param", "staticlocal", "binding"):
            out.add("v%d" % m.get("d"))
        elif m.k == "DeclRefExpr" and m.get("dk") in ("global", "staticmember"):
            out.add("g:" + (m.get("qn") or "?"))
        elif m.k == "MemberExpr" and m.get("mk") == "field":
            b = m.c[0] if m.c else None
            if b is not None and b.k == "CXXThisExpr":
                out.add("this." + m.get("n"))
        elif m.k == "CXXMemberCallExpr":
            b = m.c[0] if m.c else None
            if b is not None and b.k == "CXXThisExpr":
                out.add("this()")
    return out


def root_of_lvalue(n):
    """the storage root written when n is assigned to (through subscripts, member access, derefs)"""
    n = n.strip()
    while True:
        k = n.k
        if k == "DeclRefExpr":
            if n.get("dk") in ("local", "param", "staticlocal", "binding"):
                return "v%d" % n.get("d")
            return "g:" + (n.get("qn") or "?")
        if k == "MemberExpr":
            b = n.c[0] if n.c else None
            if b is None:
                return "?"
            if b.k == "CXXThisExpr":
                return "this." + n.get("n")
            n = b.strip()
            continue
        if k in ("ArraySubscriptExpr",):
            n = n.c[0].strip()
            continue
        if k == "CXXOperatorCallExpr" and n.c:
            n = n.c[0].strip()
            continue
        if k == "CXXMemberCallExpr" and n.c:
            b = n.c[0]
            if b.k == "CXXThisExpr":
                return "this()"
            n = b.strip()
            continue
        if k == "UnaryOperator" and n.c:
            n = n.c[0].strip()
            continue
        if k == "CXXThisExpr":
            return "this()"
        return "?"


ASSIGN_OPS = {"=", "+=", "-=", "*=", "/=", "%=", "<<=", ">>=", "&=", "|=", "^="}


def written_lvalues(n):
    """lvalue expressions (possibly) modified when node n itself is evaluated (not its children)."""
    out = []
    k = n.k
    if k in ("BinaryOperator", "CompoundAssignOperator") and n.op in ASSIGN_OPS:
        out.append(n.c[0])
    elif k == "UnaryOperator" and n.op in ("++", "--"):
        out.append(n.c[0])
    elif k == "CXXOperatorCallExpr":
        if n.op in ASSIGN_OPS or n.op in ("++", "--"):
            out.append(n.c[0])
        else:
            _nonconst_args(n, out)
    elif k == "CXXMemberCallExpr":
        info = n.callee_info
        ret = (info.get("ret") or "").rstrip()
        accessor = ret.endswith("&") and not ret.startswith("const ") and len(n.c) == 1
        # an argument-less non-const method returning a reference (e.g. Bin::view_num()) is an lvalue accessor: evaluating
        # it writes nothing; a write through the returned reference is seen at the enclosing assignment / call
        if not info.get("const") and not info.get("static") and n.c and not accessor:
            out.append(n.c[0])
        _nonconst_args(n, out)
    elif k in ("CallExpr", "CXXConstructExpr", "CXXTemporaryObjectExpr"):
        _nonconst_args(n, out)
    return out


def written_roots(n):
    """roots (possibly) modified when expression/statement node n itself is evaluated (not its children)."""
    if n.k == "VarDecl":
        return {"v%d" % n.get("d")}
    return {root_of_lvalue(e) for e in written_lvalues(n)}


def lvalue_subscripts(n):
    """index expressions met while walking from an lvalue expression down to its storage root"""
    out = []
    n = n.strip()
    while True:
        k = n.k
        if k == "ArraySubscriptExpr":
            out.append(n.c[1])
            n = n.c[0].strip()
        elif k == "CXXOperatorCallExpr" and n.op == "[]" and len(n.c) == 2:
            out.append(n.c[1])
            n = n.c[0].strip()
        elif k == "CXXOperatorCallExpr" and n.c:
            n = n.c[0].strip()
        elif k == "MemberExpr" and n.c and n.c[0].k != "CXXThisExpr":
            n = n.c[0].strip()
        elif k == "CXXMemberCallExpr" and n.c and n.c[0].k != "CXXThisExpr":
            n = n.c[0].strip()
        elif k == "UnaryOperator" and n.c:
            n = n.c[0].strip()
        else:
            return out


def _split_sig(sig):
    parts, depth, cur = [], 0, ""
    for ch in sig:
        if ch in "<(":
            depth += 1
        elif ch in ">)":
            depth -= 1
        if ch == "," and depth == 0:
            parts.append(cur)
            cur = ""
        else:
            cur += ch
    if cur:
        parts.append(cur)
    return parts


def _nonconst_args(n, out):
    info = n.callee_info
    if (info.get("qn") or "").startswith("boost::operator%") or (info.get("qn") or "").startswith("boost::basic_format"):
        return  # boost::format's operator% has T& overloads (for manipulators) but only reads its operand
    sig = _split_sig(info.get("sig", ""))
    args = n.call_args()
    if n.k == "CXXOperatorCallExpr" and not info.get("cls"):
        args = n.c
    for idx, a in enumerate(args):
        if idx >= len(sig) and info.get("qn"):
            continue  # extra arguments of a resolved variadic function (printf) are passed by value
        t = sig[idx].strip() if idx < len(sig) else "&"
        if t.endswith("&&"):
            continue
        if t.endswith("&") and not t.startswith("const ") and " const &" not in t:
            out.append(a)
        elif t.endswith("*") and not t.startswith("const "):
            # pointer passed by value: the pointee may be written. Only definite pointees count: &x, or a named pointer
            # variable/field; a pointer returned by a call (fresh object, get(), clone()) has no definite root.
            b = a.strip()
            if b.k == "UnaryOperator" and b.op == "&":
                out.append(b.c[0])
            elif b.k in ("DeclRefExpr", "MemberExpr"):
                out.append(b)


def enclosing(n, kinds):
    for a in n.ancestors():
        if a.k in kinds:
            return a
    return None
