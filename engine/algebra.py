"""Closed-form algebra on code fragments: expression tree -> sympy expression over named symbols.

Locals with exactly one definition (their initialiser) and no later write are inlined; everything that
is not arithmetic (calls, member accesses, subscripts) becomes a symbol named by its canonical key, so
two occurrences of the same pure accessor call are the same symbol.  This is algebra on two pieces of
code, not path exploration.
"""
import os

import sympy

from .tree import key, written_roots, ASSIGN_OPS


def _read_only_argument(ref):
    """is this variable reference merely passed by value / const reference to a call (so that nothing obtained from the call is a
    view onto the variable that could be written through)?"""
    from .tree import _split_sig

    child, p = ref, ref.parent
    while p is not None and p.k == "Cast":
        child, p = p, p.parent
    if p is None or not p.is_call():
        return False
    if p.call_object() is child:
        return False
    args = p.call_args()
    if p.k == "CXXOperatorCallExpr" and not p.callee_info.get("cls"):
        args = p.c
    sig = _split_sig(p.callee_info.get("sig", ""))
    for i, a in enumerate(args):
        if a is child and i < len(sig):
            t = sig[i].strip()
            if t.endswith("&&"):
                return False
            if not t.endswith("&") and not t.endswith("*"):
                return True  # by value
            return t.startswith("const ") or " const &" in t
    return False


INT_TYPES = {"int", "unsigned int", "long", "unsigned long", "long long", "unsigned long long", "short", "unsigned short", "char", "unsigned char", "signed char", "std::size_t", "size_t"}


def int_aware_div(n, a, b):
    """C++ `/` on two integer operands truncates: literal operands are folded (1/10 == 0); a symbolic integer quotient is kept as
    an opaque intdiv(a, b) so that it never cancels like a real quotient.  (Rule modules that deliberately reason over the reals
    about an integer quotient - e.g. the iteration number n = subiteration/num_subsets - check the operand types themselves.)"""
    t = (n.type or "").replace("const ", "").strip()
    if t in INT_TYPES and os.environ.get("VERIF_REAL_INTDIV") != "1":
        if a.is_Integer and b.is_Integer and b != 0:
            q = abs(int(a)) // abs(int(b))
            return sympy.Integer(q if (int(a) >= 0) == (int(b) >= 0) else -q)
        if getattr(n, "_intdiv_real", False):
            return a / b
        return sympy.Function("intdiv")(a, b)
    return a / b


class LocalDefs:
    """flow-insensitive definition table of the locals of one function"""

    def __init__(self, fn):
        self.fn = fn
        self.decl = {}  # d -> VarDecl node
        self.writes = {}  # 'v<d>' -> [nodes that write it other than the declaration]
        for n in fn.walk():
            if n.k == "VarDecl":
                self.decl[n.get("d")] = n
        for n in fn.walk():
            if n.k == "VarDecl":
                continue
            for r in written_roots(n):
                if r.startswith("v"):
                    self.writes.setdefault(r, []).append(n)
        # a write through an iterator / reference obtained from container X is (also) a definition of X
        self.view_of = {}
        for d, vd in self.decl.items():
            t = vd.get("t") or ""
            if not ("iterator" in t or "Iter" in t or t.rstrip().endswith("&") or t.rstrip().endswith("*")):
                continue
            if not vd.c:
                continue
            srcs = {m.get("d") for m in vd.c[0].walk() if m.k == "DeclRefExpr" and m.get("dk") in ("local", "param") and not _read_only_argument(m)}
            if len(srcs) == 1:
                self.view_of[d] = srcs.pop()
        for d, x in self.view_of.items():
            for w in list(self.writes.get("v%d" % d, [])):
                if w.k in ("UnaryOperator",) or (w.k == "CXXOperatorCallExpr" and w.op in ("++", "--")):
                    continue
                self.writes.setdefault("v%d" % x, []).append(w)

    def single_def(self, d):
        """initialiser node if local d is defined exactly once (declaration) and never written after"""
        v = self.decl.get(d)
        if v is None or not v.c:
            return None
        if self.writes.get("v%d" % d):
            return None
        return v.c[0]

    def binding_map(self):
        """decl id -> node to substitute: single-definition locals by their initialiser; reference locals always by
        what they were bound to (whatever is done through them)"""
        out = {}
        for d, vd in self.decl.items():
            if (vd.get("t") or "").rstrip().endswith("&") and vd.c:
                out[d] = vd.c[0]
            else:
                out[d] = self.single_def(d)
        return out

    def all_defs(self, d):
        """every expression whose value may flow into local d (initialiser + assigned right-hand sides)"""
        out = []
        v = self.decl.get(d)
        if v is not None and v.c:
            out.append(v.c[0])
        for w in self.writes.get("v%d" % d, []):
            if w.k in ("BinaryOperator", "CompoundAssignOperator") and w.op in ASSIGN_OPS:
                out.append(w.c[1])
            elif w.k == "CXXOperatorCallExpr" and w.op in ASSIGN_OPS and len(w.c) > 1:
                out.append(w.c[1])
            else:
                out.append(w)
        return out


def data_slice(fn, start_nodes, defs=None):
    """all expression nodes whose value may flow (through locals) into start_nodes (data dependence only)"""
    defs = defs or LocalDefs(fn)
    seen_vars = set()
    out = []
    todo = list(start_nodes)
    seen = set()
    while todo:
        n = todo.pop()
        if id(n) in seen:
            continue
        seen.add(id(n))
        for m in n.walk():
            out.append(m)
            if m.k == "DeclRefExpr" and m.get("dk") in ("local", "staticlocal"):
                d = m.get("d")
                if d not in seen_vars:
                    seen_vars.add(d)
                    todo.extend(defs.all_defs(d))
    return out


class Algebra:
    def __init__(self, fn, names=True, inline=True, rename=None, opaque_calls=True, cfg=None, symmetric=()):
        self.fn = fn
        self.cfg = cfg  # when given, a local with one later plain assignment dominating the use is inlined too
        self.symmetric = set(symmetric)  # callees whose two arguments commute: argument keys are sorted in the symbol name
        self.helpers = {}  # callee qualified name -> Function whose (non-constant) return expression is inlined
        self.bind = {}  # parameter decl id -> sympy expression (while inlining a helper)
        self.abs_sign = None  # when set (a sympy symbol), abs(e) becomes abs_sign*e
        self.subscript_symbols = None  # optional callable(node) -> symbol name for array elements
        self.defs = LocalDefs(fn)
        self.names = names
        self.inline = inline
        self.syms = {}
        self.rename = rename or (lambda s: s)
        self.depth = 0

    def sym(self, name):
        name = self.rename(name)
        if name not in self.syms:
            self.syms[name] = sympy.Symbol(name, real=True)
        return self.syms[name]

    def expr(self, n):
        n = n.strip()
        k = n.k
        if k == "IntegerLiteral":
            return sympy.Integer(n.get("v"))
        if k == "FloatingLiteral":
            v = n.get("v")
            return sympy.nsimplify(v, rational=True) if v is not None else self.sym("?float")
        if k == "CXXBoolLiteralExpr":
            return sympy.Integer(1 if n.get("v") else 0)
        if k == "DeclRefExpr" and n.get("dk") == "param" and n.get("d") in self.bind:
            return self.bind[n.get("d")]
        if self.subscript_symbols is not None and k in ("CXXOperatorCallExpr", "ArraySubscriptExpr") and n.get("op", "[]") == "[]":
            nm = self.subscript_symbols(n)
            if nm is not None:
                return self.sym(nm)
        if k == "DeclRefExpr":
            if n.get("dk") in ("local", "staticlocal") and self.inline:
                init = self.defs.single_def(n.get("d"))
                if init is None and self.cfg is not None:
                    ws = self.defs.writes.get("v%d" % n.get("d"), [])
                    if len(ws) == 1 and ws[0].k == "BinaryOperator" and ws[0].op == "=" and self.cfg.dominates(ws[0], n) and ws[0].i != n.i:
                        loops = [a for a in ws[0].ancestors() if a.k in ("ForStmt", "WhileStmt", "DoStmt")]
                        if not loops:
                            init = ws[0].c[1]
                if init is not None and self.depth < 30:
                    self.depth += 1
                    try:
                        return self.expr(init)
                    finally:
                        self.depth -= 1
            if "cv" in n.d and n.get("dk") not in ("local", "param"):
                return sympy.Integer(n.get("cv"))
            return self.sym(key(n, self.names))
        if k in ("BinaryOperator",):
            op = n.op
            if op in ("+", "-", "*", "/"):
                a, b = self.expr(n.c[0]), self.expr(n.c[1])
                if op == "+":
                    return a + b
                if op == "-":
                    return a - b
                if op == "*":
                    return a * b
                return int_aware_div(n, a, b)
            if op == ",":
                return self.expr(n.c[1])
        if k == "UnaryOperator":
            if n.op == "-":
                return -self.expr(n.c[0])
            if n.op == "+":
                return self.expr(n.c[0])
        if k == "CXXConstructExpr" and len(n.c) == 1:
            # value-preserving conversions such as streamoff(x), float(x)
            return self.expr(n.c[0])
        if k == "CXXOperatorCallExpr" and n.op in ("+", "-", "*", "/") and len(n.c) == 2:
            a, b = self.expr(n.c[0]), self.expr(n.c[1])
            return {"+": a + b, "-": a - b, "*": a * b, "/": a / b}[n.op]
        if k == "CXXOperatorCallExpr" and n.op == "-" and len(n.c) == 1:
            return -self.expr(n.c[0])
        if n.is_call() and n.callee in self.helpers and self.depth < 30:
            h = self.helpers[n.callee]
            args = n.call_args()
            if len(args) == len(h.params):
                vals = [self.expr(a) for a in args]
                sub = Algebra(h, names=self.names, inline=True, cfg=None, symmetric=self.symmetric)
                sub.syms = self.syms
                sub.helpers = self.helpers
                sub.abs_sign = self.abs_sign
                sub.depth = self.depth + 1
                sub.bind = {p["d"]: v for p, v in zip(h.params, vals)}
                rets = [r for r in h.walk() if r.k == "ReturnStmt" and r.c]
                cands = []
                for r in rets:
                    e = sub.expr(r.c[0])
                    if e.free_symbols & set().union(*[v.free_symbols for v in vals]) if vals else e.free_symbols:
                        cands.append(e)
                if not cands and rets:
                    cands = [sub.expr(rets[-1].c[0])]
                if len(cands) >= 1:
                    return cands[0]
        if k == "CallExpr" and (n.callee or "").split("::")[-1] in ("abs", "fabs", "fabsf", "labs") and len(n.c) == 1 and self.abs_sign is not None:
            return self.abs_sign * self.expr(n.c[0])
        if k == "CallExpr" and (n.callee or "").split("::")[-1] in ("abs", "fabs", "fabsf", "labs") and len(n.c) == 1 and getattr(self, "abs_exact", False):
            return sympy.Abs(self.expr(n.c[0]))
        if k == "CallExpr" and (n.callee or "").split("::")[-1] == "square" and len(n.c) == 1:
            return self.expr(n.c[0]) ** 2
        if k == "CallExpr" and (n.callee or "").split("::")[-1] in ("cosh", "coshf") and len(n.c) == 1:
            return sympy.cosh(self.expr(n.c[0]))
        if k == "CallExpr" and (n.callee or "").split("::")[-1] in ("tanh", "tanhf") and len(n.c) == 1:
            return sympy.tanh(self.expr(n.c[0]))
        if k == "CallExpr" and n.callee in ("pow", "std::pow", "powf") and len(n.c) == 2:
            return sympy.Pow(self.expr(n.c[0]), self.expr(n.c[1]))
        if k == "CallExpr" and n.callee in ("sqrt", "std::sqrt", "sqrtf") and len(n.c) == 1:
            return sympy.sqrt(self.expr(n.c[0]))
        if k == "CallExpr" and n.callee in ("exp", "std::exp", "expf") and len(n.c) == 1:
            return sympy.exp(self.expr(n.c[0]))
        if k == "CallExpr" and n.callee in ("log", "std::log", "logf") and len(n.c) == 1:
            return sympy.log(self.expr(n.c[0]))
        return self.sym(self.symkey(n))

    def symkey(self, n):
        """canonical key with single-definition locals inlined; commuting arguments sorted"""
        sub = getattr(self, "_sub", None)
        if sub is None:
            sub = self._sub = {d: self.defs.single_def(d) for d in self.defs.decl} if self.inline else {}
        k = key(n, self.names, sub)
        if n.is_call() and n.callee in self.symmetric and len(n.call_args()) == 2 and n.k == "CallExpr":
            a, b = sorted(key(x, self.names, sub) for x in n.call_args())
            k = "%s(%s,%s)" % (n.callee, a, b)
        return k

