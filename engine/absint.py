"""Finite-domain abstract interpretation of one function over a few tracked boolean expressions (RF4).

State: tuple of values in {True, False, 'U'} (U = never defined) for the tracked keys.  Assignments of boolean
literals / other tracked keys are interpreted exactly, any other assignment forks into both values; a branch whose
(negation-stripped) condition is a tracked key follows only the matching edge, every other branch follows both.
The CFG is the clang CFG with error()/throw as path ends, so && / || / ?: are already decomposed into atomic
branches.  All (block, state) pairs reachable from the given entry states are enumerated (finite).
"""
from .tree import key, ASSIGN_OPS


class Explorer:
    def __init__(self, cfg, tracked, havoc_calls=None, defs=None):
        self.cfg = cfg
        self.defs = defs  # optional LocalDefs: a bool local that is defined once is evaluated through its initialiser
        self.tracked = list(tracked)  # keys
        self.index = {k: i for i, k in enumerate(self.tracked)}
        self.havoc_calls = havoc_calls or {}  # callee qn -> set of tracked keys it may write
        self.events = []  # (kind, node, state)
        self.visited = set()

    def run(self, entry_states, on_element=None):
        todo = [(self.cfg.entry, tuple(s)) for s in entry_states]
        exits = []
        while todo:
            b, st = todo.pop()
            if (b, st) in self.visited:
                continue
            self.visited.add((b, st))
            B = self.cfg.blocks[b]
            states = [st]
            for n in B.elems:
                nxt = []
                for s in states:
                    nxt.extend(self._elem(n, s, on_element))
                states = nxt
            if B.aborts:
                for s in states:
                    self.events.append(("abort", B.elems[-1] if B.elems else None, s))
                continue
            if b == self.cfg.exit:
                exits.extend(states)
                continue
            for s in states:
                succs = [x for x in B.succs]
                if B.cond is not None and len(succs) == 2 and B.tk != "SwitchStmt":
                    v = self._eval(B.cond, s)
                    if v is True:
                        succs = [succs[0]]
                    elif v is False:
                        succs = [succs[1]]
                for x in succs:
                    if x is None:
                        continue
                    if x == self.cfg.exit:
                        exits.append(s)
                    else:
                        todo.append((x, s))
        return exits

    def _eval(self, cond, s):
        cond = cond.strip()
        neg = False
        while (cond.k == "UnaryOperator" and cond.op == "!") or (cond.k == "CXXOperatorCallExpr" and cond.op == "!" and len(cond.c) == 1):
            cond = cond.c[0].strip()
            neg = not neg
        if cond.k == "CXXBoolLiteralExpr":
            v = bool(cond.get("v"))
            return (not v) if neg else v
        if cond.k == "BinaryOperator" and cond.op == "=" and len(cond.c) == 2:
            r = self._eval(cond.c[1], s)  # value of a (chained) assignment is the assigned value
            return None if r is None else ((not r) if neg else r)
        if cond.k == "BinaryOperator" and cond.op in ("&&", "||"):
            a, b = self._eval(cond.c[0], s), self._eval(cond.c[1], s)
            if cond.op == "&&":
                r = False if (a is False or b is False) else (True if (a is True and b is True) else None)
            else:
                r = True if (a is True or b is True) else (False if (a is False and b is False) else None)
            if r is None:
                return None
            return (not r) if neg else r
        k = key(cond)
        if k in self.index:
            v = s[self.index[k]]
            if v == "U":
                return None
            return (not v) if neg else v
        if self.defs is not None and cond.k == "DeclRefExpr" and cond.get("dk") == "local":
            init = self.defs.single_def(cond.get("d"))
            if init is not None and getattr(self, "_depth", 0) < 5:
                self._depth = getattr(self, "_depth", 0) + 1
                try:
                    r = self._eval(init, s)
                finally:
                    self._depth -= 1
                return None if r is None else ((not r) if neg else r)
        # (x == literal) forms for tracked x
        if cond.k == "BinaryOperator" and cond.op in ("==", "!=") and len(cond.c) == 2:
            a, b = cond.c[0].strip(), cond.c[1].strip()
            for x, y in ((a, b), (b, a)):
                if key(x) in self.index and y.k == "CXXBoolLiteralExpr":
                    v = s[self.index[key(x)]]
                    if v == "U":
                        return None
                    r = v == bool(y.get("v"))
                    if cond.op == "!=":
                        r = not r
                    return (not r) if neg else r
        return None

    def _elem(self, n, s, on_element):
        # reads of tracked keys (rvalue uses)
        k = None
        if n.k in ("MemberExpr", "DeclRefExpr", "CXXMemberCallExpr"):
            k = key(n)
        if k in self.index:
            p = n.parent
            is_lhs = p is not None and p.k in ("BinaryOperator", "CompoundAssignOperator") and p.op in ASSIGN_OPS and p.c and p.c[0] is n
            if not is_lhs:
                self.events.append(("read", n, s))
        if on_element is not None:
            r = on_element(n, s, self)
            if r is not None:
                # the callback may rewrite the state (ghost variables): a list of replacement states
                res = []
                for s2 in r:
                    res.extend(self._assign(n, s2))
                return res
        return self._assign(n, s)

    def _assign(self, n, s):
        out = [s]
        if n.k == "BinaryOperator" and n.op == "=" and key(n.c[0]) in self.index:
            i = self.index[key(n.c[0])]
            rhs = n.c[1].strip()
            v = self._eval(rhs, s)
            if v is None:
                out = [s[:i] + (True,) + s[i + 1 :], s[:i] + (False,) + s[i + 1 :]]
            else:
                out = [s[:i] + (v,) + s[i + 1 :]]
        elif n.is_call() and n.callee in self.havoc_calls:
            outs = [s]
            for hk in self.havoc_calls[n.callee]:
                i = self.index[hk]
                outs = [x[:i] + (v,) + x[i + 1 :] for x in outs for v in (True, False)]
            out = outs
        return out
