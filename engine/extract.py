"""Runs tools/stirfacts over translation units (in parallel) and loads the facts."""
import concurrent.futures
import hashlib
import json
import os
import shutil
import subprocess
import tempfile

from . import compdb
from .tree import Function

HERE = os.path.dirname(os.path.dirname(os.path.abspath(__file__)))
TOOL = os.path.join(HERE, "tools", "stirfacts", "stirfacts")
REPO = compdb.REPO


class Unit:
    def __init__(self, source, config, data, cmd):
        self.source = source
        self.config = config
        self.errors = data.get("errors", 0)
        self.functions = [Function(f, self) for f in data.get("functions", [])]
        self.records = data.get("records", [])
        self.enums = data.get("enums", [])
        self.summaries = data.get("summaries", [])
        self.cmd = cmd
        dump = os.environ.get("VERIF_DUMP_FUNCS")
        if dump:
            # tools/autoequiv.py: which function bodies (file, line range, local names) the rules looked at
            with open(dump, "a") as f:
                for fn in self.functions:
                    if fn.body is None:
                        continue
                    loc, other = set(), set()
                    for n in fn.walk():
                        if n.k == "VarDecl" and n.get("n"):
                            loc.add(n.get("n"))
                        elif n.k == "DeclRefExpr" and n.get("dk") in ("local", "param", "staticlocal", "binding"):
                            pass
                        elif n.get("n"):
                            other.add(str(n.get("n")).split("::")[-1])
                        if n.is_call() and n.callee:
                            other.add(n.callee.split("::")[-1])
                    for it, _n in fn.inits:
                        if it.get("field"):
                            other.add(it["field"])
                    for p_ in fn.params:
                        if p_.get("n"):
                            loc.add(p_["n"])
                    f.write(json.dumps({"file": fn.file, "line": fn.line, "endline": fn.endline, "qn": fn.qn, "locals": sorted(loc), "other": sorted(other)}) + "\n")

    def fns(self, qn=None, suffix=None, inst=None):
        out = []
        for f in self.functions:
            if qn is not None and f.qn != qn:
                continue
            if suffix is not None and not f.qn.endswith(suffix):
                continue
            if inst is True and f.is_dependent:
                continue
            if inst is False and not f.is_dependent:
                continue
            out.append(f)
        return out


class Request:
    def __init__(self, source, fn=(), rec=(), enum=(), config="asbuilt", calls=False, overlay=None, files=()):
        self.source = source if os.path.isabs(source) else os.path.join(REPO, source)
        self.fn = tuple(fn)
        self.rec = tuple(rec)
        self.enum = tuple(enum)
        self.files = tuple(files)  # regexes on the file holding the function body (default: any file under the root)
        self.config = config
        self.calls = calls
        self.overlay = overlay

    def ident(self):
        return (self.source, self.fn, self.rec, self.enum, self.config, self.calls, self.overlay, self.files)


def _run(req, outdir):
    h = hashlib.sha1(repr(req.ident()).encode()).hexdigest()[:16]
    out = os.path.join(outdir, h + ".json")
    cmd = [TOOL, "--out", out, "--root", os.path.join(REPO, "src")]
    if req.source.startswith(HERE):
        cmd[4] = HERE  # fixtures live under /verif
    for p in req.fn:
        cmd += ["--fn", p]
    for p in req.rec:
        cmd += ["--rec", p]
    for p in req.enum:
        cmd += ["--enum", p]
    for p in req.files:
        cmd += ["--file", p]
    if req.calls:
        cmd += ["--calls"]
    flags = compdb.flags_for(req.source, req.config)
    if req.overlay:
        # overlay = "virtual=real[,virtual=real...]" : analyse scratch copies in place of files of /repo
        for m in req.overlay.split(","):
            cmd += ["--map", m]
    cmd += ["--"] + flags + [req.source]
    p = subprocess.run(cmd, capture_output=True, text=True)
    if not os.path.exists(out):
        return req, None, " ".join(cmd), p.stderr[-2000:]
    with open(out) as f:
        data = json.load(f)
    os.unlink(out)
    return req, data, " ".join(cmd), p.stderr[-2000:]


class Extractor:
    def __init__(self, jobs=None, overlay=None):
        self.overlay = overlay
        self.jobs = jobs or min(16, os.cpu_count() or 4)
        self.cache = {}
        self.failures = []
        self.commands = []
        if not os.path.exists(TOOL):
            raise RuntimeError("extractor not built: run `make -C %s/tools/stirfacts` (MANIFEST setup_cmd)" % HERE)

    def prefetch(self, requests):
        for r in requests:
            if self.overlay and not r.overlay:
                r.overlay = self.overlay
        todo = [r for r in requests if r.ident() not in self.cache]
        uniq = {}
        for r in todo:
            uniq[r.ident()] = r
        todo = list(uniq.values())
        if not todo:
            return
        outdir = tempfile.mkdtemp(prefix="stirfacts-")
        try:
            with concurrent.futures.ThreadPoolExecutor(max_workers=self.jobs) as ex:
                for req, data, cmd, err in ex.map(lambda r: _run(r, outdir), todo):
                    self.commands.append(cmd)
                    if data is None:
                        self.failures.append((req.source, req.config, err))
                        self.cache[req.ident()] = None
                    else:
                        u = Unit(req.source, req.config, data, cmd)
                        if u.errors:
                            self.failures.append((req.source, req.config, "%d parse errors: %s" % (u.errors, err[-600:])))
                        self.cache[req.ident()] = u
        finally:
            shutil.rmtree(outdir, ignore_errors=True)

    def get(self, req):
        if self.overlay and not req.overlay:
            req.overlay = self.overlay
        if req.ident() not in self.cache:
            self.prefetch([req])
        return self.cache[req.ident()]
