"""RF5: configuration setters invalidate derived 'already set up' state.

For each non-const member function `set_*` of the given classes that assigns one of the object's own fields:
on every path from entry to a normal return there must be an invalidation of the set-up flag, in one of the repo's
idioms
    flag = false;
    flag = flag && (this->field == arg);      -- must be evaluated BEFORE this->field is overwritten, and must
                                                 compare the very field that is overwritten
or a call to a member function whose own summary is 'invalidates on all normal paths'.
"""
from .cfg import CFG
from .tree import key, written_roots, ASSIGN_OPS


def field_writes(fn):
    """(node, field name) for direct writes to own fields (assignment, compound assignment, non-const call on the field, reset)"""
    out = []
    for n in fn.walk():
        for r in written_roots(n):
            if r.startswith("this.") and r != "this()":
                out.append((n, r[5:]))
    return out


def is_invalidation(n, flag):
    """returns None or ('false'|'idiom', compared_field or None)"""
    if n.k == "BinaryOperator" and n.op == "=" and key(n.c[0]) == "this." + flag:
        rhs = n.c[1].strip()
        if rhs.k == "CXXBoolLiteralExpr" and rhs.get("v") is False:
            return ("false", None)
        if rhs.k == "BinaryOperator" and rhs.op == "&&" and key(rhs.c[0].strip()) == "this." + flag:
            cmp_ = rhs.c[1].strip()
            fields = set()
            for m in cmp_.walk():
                if m.k == "MemberExpr" and m.get("mk") == "field" and m.c and m.c[0].k == "CXXThisExpr":
                    fields.add(m.get("n"))
            eq = cmp_.k in ("BinaryOperator", "CXXOperatorCallExpr") and cmp_.op == "=="
            return ("idiom" if eq else "idiom-noneq", fields)
    # if-form of the idiom:  if (this->field != arg) flag = false;
    if n.k in ("BinaryOperator", "CXXOperatorCallExpr") and n.op == "!=" and n.parent is not None and n.parent.k == "IfStmt":
        ifs = n.parent
        if ifs.c and ifs.c[0] is n and len(ifs.c) == 2:
            sets = [
                m
                for m in ifs.c[1].walk()
                if m.k == "BinaryOperator" and m.op == "=" and key(m.c[0]) == "this." + flag and m.c[1].strip().k == "CXXBoolLiteralExpr" and m.c[1].strip().get("v") is False
            ]
            if sets:
                fields = set()
                for m in n.walk():
                    if m.k == "MemberExpr" and m.get("mk") == "field" and m.c and m.c[0].k == "CXXThisExpr":
                        fields.add(m.get("n"))
                if fields:
                    return ("idiom", fields)
    return None


def summarise_invalidators(fns, flag):
    """names of member functions that invalidate on all normal paths (one level: direct assignment of false)"""
    out = set()
    for fn in fns:
        if fn.body is None or not fn.cfg_raw:
            continue
        inv = [n for n in fn.walk() if is_invalidation(n, flag) and is_invalidation(n, flag)[0] == "false"]
        if not inv:
            continue
        cfg = CFG(fn)
        ids = {n.i for n in inv}
        if cfg.paths_avoiding([(cfg.entry, -1)], lambda n: n.i in ids) is None:
            out.add(fn.qn)
    return out


def check_setters(ctx, rule, fns, flag, exempt=None, name_filter=None, also_invalidating=None):
    """fns: Function objects (one per definition). exempt: {qualified name: reason}."""
    exempt = exempt or {}
    invalidators = summarise_invalidators(fns, flag) | set(also_invalidating or ())
    count = 0
    for fn in fns:
        if fn.body is None or not fn.cfg_raw or fn.is_const or fn.is_ctor or fn.d.get("dtor") or fn.d.get("static"):
            continue
        short = fn.short
        if fn.d.get("access", 0) != 0:
            continue  # only the public configuration interface
        if name_filter is not None:
            if not name_filter(fn):
                continue
        elif not short.startswith("set_") or short.startswith("set_up") or short in ("set_defaults",):
            continue
        writes = [(n, f) for n, f in field_writes(fn) if f != flag]
        if not writes:
            continue
        fid = fn.qn + "(" + fn.sig + ")"
        if fn.qn in exempt:
            ctx.stats.setdefault("exempt_setters", []).append("%s: %s" % (fn.qn, exempt[fn.qn]))
            continue
        cfg = CFG(fn)

        def inv_pred(n):
            if is_invalidation(n, flag):
                return True
            if n.is_call() and n.callee in invalidators and n.call_object() is not None and n.call_object().k == "CXXThisExpr":
                return True
            return False

        # every path that overwrites a field also invalidates (before or after the write)
        ok = True
        bad_field = None
        for wn, fld in writes:
            if wn.i not in cfg.pos:
                continue
            before = cfg.must_pass_from_entry([wn], inv_pred) is None
            after = cfg.must_pass_before_exit([wn], inv_pred) is None
            if not (before or after):
                ok = False
                bad_field = fld
                break
        detail = "every path that overwrites a field invalidates %s" % flag if ok else "a normal path overwrites %s without invalidating %s" % (bad_field, flag)
        # idiom ordering: the comparison must see the OLD value
        if ok:
            for n in fn.walk():
                r = is_invalidation(n, flag)
                if r and r[0].startswith("idiom"):
                    if r[0] == "idiom-noneq":
                        ok = False
                        detail = "invalidation idiom does not compare with == (%s)" % key(n, True)[:120]
                        break
                    cmp_fields = r[1]
                    written_here = {f for _n, f in writes}
                    if not cmp_fields:
                        continue  # comparison through a getter: the path condition above already covers it
                    if not (cmp_fields & written_here):
                        ok = False
                        detail = "idiom compares %s but the setter overwrites %s" % (sorted(cmp_fields), sorted(written_here))
                        break
                    for wn, f in writes:
                        if f in cmp_fields and wn.i in cfg.pos and n.i in cfg.pos and not _strictly_before(cfg, n, wn):
                            ok = False
                            detail = "field %s is overwritten before the idiom compares it (comparison always true)" % f
                            break
        ctx.ob(rule, fid, "invalidates:" + flag, ok, fn.where(), detail)
        count += 1
    return count


def _strictly_before(cfg, a, b):
    pa, pb = cfg.pos[a.i], cfg.pos[b.i]
    if pa[0] == pb[0]:
        return pa[1] < pb[1]
    return cfg.dominates(a, b)
