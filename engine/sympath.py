"""Algebraic summaries of small branch-structured, loop-free functions that update a few named coordinates of one
parameter object (e.g. Bin::view_num(), segment_num()).  Each syntactic branch combination yields
    (conditions, final value of every coordinate)
with the coordinates' initial values as symbols.  Used to compare sibling implementations (RF7, affine domain).
This is algebra on the function's text structure (acyclic if-trees), not execution.
"""
import sympy

from .tree import key, written_lvalues, root_of_lvalue


class Unrecognised(Exception):
    pass


class Summariser:
    def __init__(self, fn, param_root, coords, extra_symbols=None):
        self.fn = fn
        self.p = param_root  # 'v<d>'
        self.coords = list(coords)
        self.sym0 = {c: sympy.Symbol(c + "0", integer=True) for c in self.coords}
        self.syms = {}

    def sym(self, name):
        if name not in self.syms:
            self.syms[name] = sympy.Symbol(name, integer=True)
        return self.syms[name]

    def coord_of(self, n):
        """if n is <param>.<coord>() return coord"""
        n = n.strip()
        if n.k == "CXXMemberCallExpr" and n.callee and n.c and n.c[0].k == "DeclRefExpr" and "v%d" % n.c[0].get("d") == self.p:
            c = n.callee.split("::")[-1]
            if c in self.coords:
                return c
        return None

    def expr(self, n, st, env):
        n = n.strip()
        c = self.coord_of(n)
        if c is not None:
            return st[c]
        k = n.k
        if k == "IntegerLiteral":
            return sympy.Integer(n.get("v"))
        if k == "DeclRefExpr" and n.get("dk") == "local" and n.get("d") in env:
            return env[n.get("d")]
        if k == "BinaryOperator" and n.op in ("+", "-", "*", "/"):
            a, b = self.expr(n.c[0], st, env), self.expr(n.c[1], st, env)
            if n.op == "+":
                return a + b
            if n.op == "-":
                return a - b
            if n.op == "*":
                return a * b
            # integer division: keep as an opaque floor-division symbol of the two operands
            return sympy.Function("idiv")(a, b)
        if k == "UnaryOperator" and n.op == "-":
            return -self.expr(n.c[0], st, env)
        if k == "UnaryOperator" and n.op == "+":
            return self.expr(n.c[0], st, env)
        if k in ("MemberExpr", "DeclRefExpr"):
            return self.sym(key(n, True))
        if k == "CXXConstructExpr" and len(n.c) == 1:
            return self.expr(n.c[0], st, env)
        raise Unrecognised("expression %s" % key(n, True)[:80])

    def cond(self, n, st, env):
        n = n.strip()
        if n.k == "BinaryOperator" and n.op in ("<", "<=", ">", ">=", "==", "!="):
            return "(%s %s %s)" % (n.op, sympy.expand(self.expr(n.c[0], st, env)), sympy.expand(self.expr(n.c[1], st, env)))
        if n.k == "BinaryOperator" and n.op in ("&&", "||"):
            return "(%s %s %s)" % (n.op, self.cond(n.c[0], st, env), self.cond(n.c[1], st, env))
        if n.k == "UnaryOperator" and n.op == "!":
            return "(! %s)" % self.cond(n.c[0], st, env)
        raise Unrecognised("condition %s" % key(n, True)[:80])

    def run(self):
        st = dict(self.sym0)
        out = []
        self._stmts([self.fn.body], st, {}, (), out)
        return out

    def _stmts(self, todo, st, env, conds, out):
        """todo: list of statements still to execute (continuation)"""
        if not todo:
            out.append((conds, {c: sympy.expand(v) for c, v in st.items()}))
            return
        s, rest = todo[0], todo[1:]
        k = s.k
        if k == "CompoundStmt":
            return self._stmts(list(s.c) + rest, st, env, conds, out)
        if k in ("NullStmt",):
            return self._stmts(rest, st, env, conds, out)
        if k == "ReturnStmt":
            out.append((conds, {c: sympy.expand(v) for c, v in st.items()}))
            return
        if k == "IfStmt":
            c = self.cond(s.c[0], st, env)
            self._stmts([s.c[1]] + rest, dict(st), dict(env), conds + ((c, True),), out)
            els = [s.c[2]] if len(s.c) > 2 else []
            self._stmts(els + rest, dict(st), dict(env), conds + ((c, False),), out)
            return
        if k == "DeclStmt":
            env = dict(env)
            for v in s.c:
                if v.k == "VarDecl" and v.c:
                    env[v.get("d")] = self.expr(v.c[0], st, env)
            return self._stmts(rest, st, env, conds, out)
        if k in ("BinaryOperator", "CompoundAssignOperator") and s.op in ("=", "+=", "-=", "*="):
            c = self.coord_of(s.c[0])
            if c is None:
                lv = s.c[0].strip()
                if lv.k == "DeclRefExpr" and lv.get("dk") == "local":
                    env = dict(env)
                    r = self.expr(s.c[1], st, env)
                    old = env.get(lv.get("d"), self.sym(key(lv, True)))
                    env[lv.get("d")] = {"=": r, "+=": old + r, "-=": old - r, "*=": old * r}[s.op]
                    return self._stmts(rest, st, env, conds, out)
                if root_of_lvalue(s.c[0]) == self.p:
                    raise Unrecognised("write to an untracked part of the parameter: %s" % key(s, True)[:80])
                return self._stmts(rest, st, env, conds, out)
            r = self.expr(s.c[1], st, env)
            st = dict(st)
            st[c] = {"=": r, "+=": st[c] + r, "-=": st[c] - r, "*=": st[c] * r}[s.op]
            return self._stmts(rest, st, env, conds, out)
        if k == "UnaryOperator" and s.op in ("++", "--"):
            c = self.coord_of(s.c[0])
            if c is not None:
                st = dict(st)
                st[c] = st[c] + (1 if s.op == "++" else -1)
            return self._stmts(rest, st, env, conds, out)
        # any other statement must not touch the parameter
        for m in s.walk():
            for e in written_lvalues(m):
                if root_of_lvalue(e) == self.p:
                    raise Unrecognised("statement %s modifies the parameter" % key(s, True)[:80])
        return self._stmts(rest, st, env, conds, out)


def summarise(fn, param_index, coords):
    p = "v%d" % fn.params[param_index]["d"]
    return Summariser(fn, p, coords).run()


def project(summary, coords):
    """restrict to some coordinates and to conditions that mention only their initial symbols; canonical, hashable"""
    out = set()
    for conds, st in summary:
        cs = tuple(sorted((c, t) for c, t in conds))
        out.add((cs, tuple((c, str(st[c])) for c in coords)))
    return out
