/*
    Copyright (C) 2016-2017, 2022 University College London
    This file is part of STIR.

    SPDX-License-Identifier: Apache-2.0

    See STIR/LICENSE.txt for details
*/
#ifndef __stir_config__H__
#define __stir_config__H__
/*!
  \file 
  \ingroup buildblock 
  \brief basic configuration include file 

  This file will be used by CMake to create stir/config.h based on local settings and CMake options.

  \author Kris Thielemans
*/

namespace stir {
  /*!
    \name Preprocessor symbols with version information
    \ingroup buildblock
    Values are set by CMake from the main CMakeLists.txt.
  */
  //@{
  #define STIR_VERSION 060200
  #define STIR_VERSION_STRING "6.2.0"
  /*! \def STIR_VERSION
      \brief numerical amalgation of the version info, as in 030100 (for version 3.1.0)
  */
  /*! \def STIR_VERSION_STRING
      \brief a string with the version info, as in "3.1.0" (for version 3.1.0)
  */
  
  //@}
}

// preprocessor symbols with location of installed files
// do NOT use directly, but use functions in find_STIR_config.h instead
#define STIR_CONFIG_DIR "/usr/local/share/STIR-6.2/config"

#define STIR_DOC_DIR "/usr/local/share/doc/STIR-6.2"

#if defined(_MSC_VER)
#include "stir/config/visualc.h"
#endif
#if defined(__GNUC__)
#include "stir/config/gcc.h"
#endif

#include "boost/config.hpp"

// 2 variables set via CMake
/* #undef BIG_ENDIAN_BYTE_ORDER_FROM_CMAKE */
#define LITTLE_ENDIAN_BYTE_ORDER_FROM_CMAKE

/* #undef HAVE_ECAT */
#ifdef HAVE_ECAT
#define HAVE_LLN_MATRIX
#endif

/* #undef HAVE_CERN_ROOT */

/* #undef HAVE_UPENN */

#define HAVE_HDF5

/* #undef HAVE_ITK */

#define HAVE_JSON

/* #undef STIR_WITH_NiftyPET_PROJECTOR */

/* #undef STIR_WITH_CUDA */

/* #undef STIR_WITH_Parallelproj_PROJECTOR */
/* #undef parallelproj_built_with_CUDA */

/* #undef STIR_OPENMP */

/* #undef STIR_MPI */

#define nlohmann_json_FOUND "1"

/* #undef STIR_USE_BOOST_SHARED_PTR */

/* #undef STIR_NO_UNIQUE_PTR */

#define HAVE_SYSTEM_GETOPT

/* #undef STIR_DEFAULT_PROJECTOR_AS_V2 */
#ifndef STIR_DEFAULT_PROJECTOR_AS_V2
#define USE_PMRT
#endif

/* #undef STIR_PROJECTORS_AS_V3 */
/* #undef STIR_ROOT_ROTATION_AS_V4 */
/* #undef STIR_LEGACY_IGNORE_VIEW_OFFSET */

#define STIR_TOF 1
/*! \def STIR_TOF
  \brief Defined if TOF capabilities are enabled.
*/

#endif //  __stir_config__H__
