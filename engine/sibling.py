"""RF7 sibling agreement: effect summaries of functions that must agree up to a dual operator swap.

An *effect* on a target (a by-reference parameter, or the object's own fields) is
   (opclass, factor-signature)
opclass: 'mul' (a *= f, a = a*f), 'div' (a /= f, divide(a.begin,a.end,f.begin,.)), 'add', 'sub', 'assign',
         'call:<method>' (target handed to another object's method, e.g. member->apply(target)).
factor-signature: the set of calls (canonical keys with single-definition locals inlined and the remaining locals
named by their type) in the data slice of the factor, i.e. *where the factor comes from*.
"""
from .algebra import LocalDefs, data_slice
from .canon import type_roles
from .tree import key, root_of_lvalue, written_lvalues

OPCLASS = {"*=": "mul", "/=": "div", "+=": "add", "-=": "sub", "=": "assign"}
DUAL = {"mul": "div", "div": "mul", "add": "sub", "sub": "add"}
PLUMBING = {"begin", "end", "begin_all", "end_all", "begin_all_const", "end_all_const", "get", "operator*", "operator->", "operator++", "operator[]", "operator!=", "operator==", "size"}


def inline_map(fn, defs=None):
    defs = defs or LocalDefs(fn)
    return {d: defs.single_def(d) for d in defs.decl}


def aliases(fn, target_root, defs):
    """locals (iterators, references) whose value derives from the target"""
    out = {target_root}
    changed = True
    while changed:
        changed = False
        for d, vd in defs.decl.items():
            r = "v%d" % d
            if r in out:
                continue
            t = vd.get("t") or ""
            if not ("iterator" in t or t.rstrip().endswith("&") or t.rstrip().endswith("*") or "Iter" in t):
                continue  # a value (Bin, double, ...) computed from the target is not a view onto it
            for e in defs.all_defs(d):
                for m in e.walk():
                    if m.k == "DeclRefExpr" and m.get("dk") in ("local", "param") and "v%d" % m.get("d") in out:
                        # only iterator/reference like locals: obtained by a call ON the target, or a copy of an alias iterator
                        out.add(r)
                        changed = True
                        break
                if r in out:
                    break
    return out


def signature(fn, expr_nodes, defs, sub, roles=None):
    roles = roles if roles is not None else type_roles(fn, defs)
    sig = set()
    for m in data_slice(fn, expr_nodes, defs):
        if not m.is_call() or not m.callee:
            continue
        short = m.callee.split("::")[-1]
        if short in PLUMBING or m.callee.startswith("std::"):
            continue
        sig.add(key(m, roles, sub))
    return sig


def effects_on(fn, target_root, defs=None):
    defs = defs or LocalDefs(fn)
    sub = inline_map(fn, defs)
    al = aliases(fn, target_root, defs)
    roles = type_roles(fn, defs)
    out = []
    for n in fn.walk():
        rec = None
        if n.k in ("CompoundAssignOperator", "BinaryOperator") and n.op in OPCLASS and n.op != "=":
            if root_of_lvalue(n.c[0]) in al:
                rec = (OPCLASS[n.op], [n.c[1]])
        elif n.k in ("BinaryOperator", "CXXOperatorCallExpr") and n.op == "=" and len(n.c) == 2 and root_of_lvalue(n.c[0]) in al:
            # a = a * f  /  a = a / f  are the same operations as a *= f / a /= f
            rhs = n.c[1].strip()
            if rhs.k in ("BinaryOperator", "CXXOperatorCallExpr") and rhs.op in ("*", "/", "+", "-") and len(rhs.c) == 2:
                if key(rhs.c[0].strip()) == key(n.c[0].strip()):
                    rec = (OPCLASS[rhs.op + "="], [rhs.c[1]])
                elif rhs.op in ("*", "+") and key(rhs.c[1].strip()) == key(n.c[0].strip()):
                    rec = (OPCLASS[rhs.op + "="], [rhs.c[0]])
        elif n.k == "CXXOperatorCallExpr" and n.op in OPCLASS and n.op != "=" and len(n.c) == 2:
            if root_of_lvalue(n.c[0]) in al:
                rec = (OPCLASS[n.op], [n.c[1]])
        elif n.k == "CallExpr" and n.callee in ("stir::divide",) and len(n.c) >= 3 and root_of_lvalue(n.c[0]) in al:
            rec = ("div", [n.c[2]])
        elif n.k == "CallExpr" and n.callee in ("stir::multiply",) and len(n.c) >= 3 and root_of_lvalue(n.c[0]) in al:
            rec = ("mul", [n.c[2]])
        elif n.k == "CXXMemberCallExpr" and n.callee and n.c and root_of_lvalue(n.c[0]) == target_root and n.c[0] in written_lvalues(n) and n.callee.split("::")[-1] not in PLUMBING:
            # a non-const method of the target itself (e.g. proj_data.set_related_viewgrams(v)): what is stored comes from the arguments
            rec = ("self:" + n.callee.split("::")[-1], list(n.call_args()))
        elif n.k == "CXXMemberCallExpr" and n.callee:
            obj = n.c[0] if n.c else None
            passed = [a for a in n.call_args() if root_of_lvalue(a) in al and a in written_lvalues(n)]
            if passed and obj is not None and root_of_lvalue(obj) not in al:
                rec = ("call:" + n.callee.split("::")[-1], [obj] + [a for a in n.call_args() if a not in passed])
        if rec is not None:
            out.append({"op": rec[0], "sig": signature(fn, rec[1], defs, sub, roles), "node": n, "recv": key(rec[1][0], roles, sub) if rec[0].startswith("call:") else None})
    return out


def dual_compare(e1, e2, swap_calls=None, allow=()):
    """compare two effect lists; returns list of difference strings (empty = dual)"""
    swap_calls = swap_calls or {}
    diffs = []
    if len(e1) != len(e2):
        diffs.append("different number of modifications of the data: %d vs %d (%s vs %s)" % (len(e1), len(e2), [e["op"] for e in e1], [e["op"] for e in e2]))
        return diffs
    import re as _re

    def swapped(sig):
        def rep(m):
            return "." + swap_calls.get(m.group(1), m.group(1)) + "("

        return {_re.sub(r"\.(\w+)\(", rep, x) for x in sig}

    for a, b in zip(e1, e2):
        if a["op"].startswith("self:") or b["op"].startswith("self:"):
            if a["op"] != b["op"]:
                diffs.append("%s (line %d) vs %s (line %d)" % (a["op"], a["node"].line, b["op"], b["node"].line))
            elif swapped(a["sig"]) != b["sig"]:
                diffs.append("what is stored back differs beyond the dual operation: %s vs %s" % (sorted(swapped(a["sig"]) - b["sig"])[:2], sorted(b["sig"] - swapped(a["sig"]))[:2]))
            continue
        if a["op"].startswith("call:") or b["op"].startswith("call:"):
            ma, mb = a["op"][5:], b["op"][5:]
            if swap_calls.get(ma, ma) != mb:
                diffs.append("delegation %s (line %d) is not the dual of %s (line %d)" % (ma, a["node"].line, mb, b["node"].line))
            if a["recv"] != b["recv"]:
                diffs.append("delegation to different objects: %s vs %s" % (a["recv"], b["recv"]))
            continue
        if DUAL.get(a["op"]) != b["op"]:
            diffs.append("operation %s (line %d) vs %s (line %d) are not inverse operations" % (a["op"], a["node"].line, b["op"], b["node"].line))
        sa, sb = a["sig"], b["sig"]
        for pat in allow:
            sa = {x for x in sa if pat not in x}
            sb = {x for x in sb if pat not in x}
        if sa != sb:
            diffs.append("the two factors come from different sources: only in first %s; only in second %s" % (sorted(sa - sb)[:3], sorted(sb - sa)[:3]))
    return diffs
